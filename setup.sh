#!/bin/bash
# Idempotent offline bootstrap of the overlay venv used by every check.
# /venv (the repository's interpreter + deps) is left untouched; /verif/.venv sees
# /venv's site-packages and /repo/src through a .pth file and gets crosshair-tool
# and z3-solver from the offline wheelhouse.
set -e
cd "$(dirname "$0")"
V=/verif/.venv
if [ -x $V/bin/crosshair ] && $V/bin/python -c "import crosshair, z3, wikitextprocessor" 2>/dev/null; then
  exit 0
fi
(
  flock 9
  if [ -x $V/bin/crosshair ] && $V/bin/python -c "import crosshair, z3, wikitextprocessor" 2>/dev/null; then
    exit 0
  fi
  rm -rf $V
  /venv/bin/python -m venv $V
  SP=$($V/bin/python -c "import sysconfig; print(sysconfig.get_paths()['purelib'])")
  printf '/venv/lib/python3.12/site-packages\n/repo/src\n' > $SP/verif_overlay.pth
  PIP_NO_INDEX=1 $V/bin/pip install -q --no-index --find-links /opt/veriftools/wheels crosshair-tool z3-solver
  $V/bin/python -c "import crosshair, z3, wikitextprocessor; print('overlay venv ready: crosshair', crosshair.__version__, 'z3', z3.get_version_string())"
) 9>/verif/.setup.lock
