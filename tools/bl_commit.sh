#!/bin/bash
# usage: bl_commit.sh <commit>  - run the baseline on a scratch worktree of that commit, result in /tmp/bl/<commit>.txt
c=$(git -C /repo rev-parse --short "$1")
mkdir -p /tmp/bl
git -C /repo worktree add -q --detach /tmp/bl/wt-$c $c
/verif/tools/baseline.py /tmp/bl/wt-$c > /tmp/bl/$c.txt 2>&1
git -C /repo worktree remove --force /tmp/bl/wt-$c
