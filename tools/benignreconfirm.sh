#!/bin/bash
# usage: benignreconfirm.sh <ID> [set=benign] - re-confirms a stored refactoring against the current /repo HEAD (after a fix: commit moved
# it): patch applies, equivalence driver output identical to HEAD's, stable-pass tests still pass.
id=$1; set_=${2:-benign}; out=/verif/seeded/$set_/$id; sw=/tmp/sw-$set_-$id
git -C /repo worktree remove --force $sw 2>/dev/null
git -C /repo worktree add -q --detach $sw HEAD || exit 2
cd $sw
if ! git apply $out/patch.diff; then echo "PATCH DOES NOT APPLY: $id"; cd /; git -C /repo worktree remove --force $sw; exit 3; fi
e="no equiv.py"
if [ -f $out/equiv.py ]; then
  (cd $out && export PYTHONHASHSEED=0 && PYTHONPATH=/repo/src timeout 600 /venv/bin/python equiv.py > /tmp/benign-$id-a.out 2>/dev/null; PYTHONPATH=$sw/src timeout 600 /venv/bin/python equiv.py > /tmp/benign-$id-b.out 2>/dev/null)
  sed -i "s#$sw#/repo#g" /tmp/benign-$id-b.out
  if cmp -s /tmp/benign-$id-a.out /tmp/benign-$id-b.out; then e="equiv outputs identical ($(wc -l < /tmp/benign-$id-a.out) lines)"; else e="EQUIV OUTPUTS DIFFER"; fi
fi
/verif/tools/baseline.py $sw > $out/baseline.out 2>&1; c=$?
head -1 $out/baseline.out; echo "$e"
cd /; git -C /repo worktree remove --force $sw; rm -f /tmp/benign-$id-a.out /tmp/benign-$id-b.out
[ $c = 0 ] && [ "${e:0:5}" != "EQUIV" ] && echo "BENIGN RECONFIRMED: $id" || echo "BENIGN NOT CONFIRMED: $id"
