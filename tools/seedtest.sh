#!/bin/bash
# usage: seedtest.sh <seed-dir> [property] - apply a seeded change to /repo, run the property's quick check, undo the change.
d=$1; pid=${2:-$(jq -r .property $d/meta.json)}
git -C /repo diff --quiet || { echo "/repo has uncommitted changes"; exit 2; }
git -C /repo apply $d/patch.diff || exit 2
cd /verif && ./check $pid --tier ${TIER:-quick} > /tmp/seedtest-$(basename $d).out 2>&1; rc=$?
git -C /repo checkout -- .
echo "seed $(basename $d) property $pid -> check exit $rc"; grep -a "VIOLATION\|violation:" /tmp/seedtest-$(basename $d).out | head -5
exit $rc
