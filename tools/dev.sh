#!/bin/bash
# development run that cannot collide with a check running in /verif: own generated-harness and output directories
cd /verif && VERIF_GEN=/tmp/devgen VERIF_OUT=/tmp/devout ./check "$@"
