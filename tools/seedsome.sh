#!/bin/bash
# usage: seedsome.sh <seed-name ...> - like seedmatrix.sh for the given seeds only; appends to $SM_RESULTS (default /tmp/sm/results-extra.tsv)


cd /verif
seeds=${@:-$(ls seeded | grep -E '^C[0-9]+-[0-9]+$')}
mkdir -p /tmp/sm
for s in $seeds; do
  pid=${s%%-*}
  wt=/tmp/sm/wt-$s
  git -C /repo worktree remove --force $wt 2>/dev/null
  git -C /repo worktree add -q --detach $wt HEAD || continue
  if ! git -C $wt apply /verif/seeded/$s/patch.diff; then echo -e "$s\t$pid\tPATCH-FAILS" ; git -C /repo worktree remove --force $wt; continue; fi
  out=/tmp/sm/out-$s; rm -rf $out; mkdir -p $out
  VERIF_REPO=$wt VERIF_GEN=/tmp/sm/gen-$s VERIF_OUT=$out PYTHONPATH=$wt/src VERIF_TIER=${TIER:-quick} /verif/.venv/bin/python -m vf.run $pid > $out/log 2>&1
  rc=$?
  v=$(grep -a -m1 "violation:" $out/log | cut -c1-220)
  echo -e "$s\t$pid\texit=$rc\t$v"
  /verif/.venv/bin/python - "$s" "$rc" "$v" <<'PY'
import json,sys
s,rc,v=sys.argv[1:4]
p=f'/verif/seeded/{s}/meta.json'
m=json.load(open(p))
m['check_result']={"quick_check_exit":int(rc),"detected":int(rc)==1,"first_violation":v}
json.dump(m,open(p,'w'),indent=1)
PY
  git -C /repo worktree remove --force $wt; rm -rf /tmp/sm/gen-$s
done | tee -a ${SM_RESULTS:-/tmp/sm/results-extra.tsv}
