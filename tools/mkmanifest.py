#!/usr/bin/env python3
"""Regenerates MANIFEST.json from the table below (kept in one place so it is always valid)."""
import json, os, sys
V = os.path.dirname(os.path.dirname(os.path.abspath(__file__)))
CHECKS = {}
NA = {}
exec(open(os.path.join(V, "tools", "manifest_table.py")).read())
import json as _j
ALL = [_j.loads(l)["id"] for l in open(os.path.join(V, "properties.jsonl")) if l.strip()]
for pid in ALL:
    if pid not in CHECKS and pid not in NA:
        NA[pid] = "check not built yet in this round (planned, see DESIGN.md section 3)"
checks = []
for pid, c in sorted(CHECKS.items()):
    checks.append({
        "property_id": pid,
        "quick_cmd": f"./check {pid} --tier quick",
        "thorough_cmd": f"./check {pid} --tier thorough",
        "evidence_file": f"/verif/evidence/{pid}.json",
        "replay_cmd_template": f"./check {pid} --replay {{path}}",
        "engine": c["engine"],
        "level_claimed": {"category": "other", "text": c["text"], "design_ref": c["design_ref"]},
        "level_note": c["note"],
        "technique": c["technique"],
    })
m = {
    "version": 1,
    "setup_cmd": "./setup.sh",
    "hooks": {
        "guard": "WIKITEXTPROCESSOR_VERIF",
        "enable": "no source hooks are used: checks import /repo/src as it is, slice its AST and stub from outside; the guard name is reserved only",
        "baseline_off_cmd": "/verif/tools/baseline.py /repo",
        "source_commits": [],
        "add_only": True,
    },
    "engines": [
        {"name": "E1 CrossHair kernels", "path": "vf/xh.py", "serves_properties": sorted(p for p, c in CHECKS.items() if "E1" in c["engine"]), "kind_free_text": "symbolic execution of the real Python functions with z3 (crosshair-tool 0.0.110), one OS process per condition, reachability twins, concrete + public-API replay"},
        {"name": "E2 z3 regex lemmas", "path": "vf/resym.py", "serves_properties": sorted(p for p, c in CHECKS.items() if "E2" in c["engine"]), "kind_free_text": "sre_parse tree of the live pattern objects -> z3 regular expressions; language inclusion/equivalence without length bound"},
        {"name": "E3 AST path encoder", "path": "vf/astpaths.py", "serves_properties": sorted(p for p, c in CHECKS.items() if "E3" in c["engine"]), "kind_free_text": "control flow of the current source -> z3 terms over branch booleans; paired-operation balance, guard dominance, call-count queries"},
        {"name": "E4 havoc harness", "path": "vf/xh.py", "serves_properties": sorted(p for p, c in CHECKS.items() if "E4" in c["engine"]), "kind_free_text": "context state set to arbitrary symbolic values before the documented protocol; compared with a fresh context"},
    ],
    "checks": checks,
    "not_applicable": [{"property_id": p, "reason": r} for p, r in sorted(NA.items())],
    "notes": "All checks are solver-based (CrossHair/z3) on the real code; bounds, stubs and what lies outside each claim are in DESIGN.md and in every evidence file.",
}
json.dump(m, open(os.path.join(V, "MANIFEST.json"), "w"), indent=1)
print("MANIFEST.json:", len(checks), "checks,", len(NA), "not applicable")
