#!/bin/bash
# usage: [BENIGN_SET=benign2] benignmatrix.sh [ID ...] - runs each stored behaviour-preserving refactoring (seeded/<set>/<ID>/patch.diff) against its
# property's quick check on a scratch worktree of /repo HEAD: the check must exit 0 and print no VIOLATION line.
cd /verif
B=${BENIGN_SET:-benign}
ids=${@:-$(ls seeded/$B)}
mkdir -p /tmp/sm
for id in $ids; do
  wt=/tmp/sm/wt-$B-$id
  git -C /repo worktree remove --force $wt 2>/dev/null
  git -C /repo worktree add -q --detach $wt HEAD || continue
  if ! git -C $wt apply /verif/seeded/$B/$id/patch.diff; then echo -e "$id\tPATCH-FAILS"; git -C /repo worktree remove --force $wt; continue; fi
  out=/tmp/sm/out-$B-$id; rm -rf $out; mkdir -p $out
  VERIF_REPO=$wt VERIF_GEN=/tmp/sm/gen-$B-$id VERIF_OUT=$out PYTHONPATH=$wt/src VERIF_TIER=${TIER:-quick} /verif/.venv/bin/python -m vf.run $id > $out/log 2>&1
  rc=$?
  nv=$(grep -a -c "^VIOLATION" $out/log)
  nd=$(grep -a "^\[$id\] Ob" $out/log | grep -a -c -v ": discharged\|: known-finding")
  echo -e "$id\texit=$rc\tviolations=$nv\tnot_discharged=$nd\t$(grep -a "^\[$id\] Ob" $out/log | grep -a -v ': discharged\|: known-finding' | cut -c1-160 | tr '\n' ';')"
  /verif/.venv/bin/python - "$id" "$rc" "$nv" "$nd" "$B" <<'PY'
import json,sys
i,rc,nv,nd,B=sys.argv[1:6]
p=f'/verif/seeded/{B}/{i}/meta.json'
m=json.load(open(p))
m['check_result']={"quick_check_exit":int(rc),"violations":int(nv),"obligations_not_discharged":int(nd),"false_alarm":int(rc)==1 or int(nv)>0}
json.dump(m,open(p,'w'),indent=1)
PY
  git -C /repo worktree remove --force $wt; rm -rf /tmp/sm/gen-$B-$id
done | tee /tmp/sm/$B-last.tsv
