#!/bin/bash
# runs every claimed check's quick (or $TIER) command in sequence, as `vp check` does; prints exit codes and wall time
cd /verif
for p in $(python3 -c "import json;print(' '.join(c['property_id'] for c in json.load(open('MANIFEST.json'))['checks']))"); do
  s=$(date +%s)
  ./check $p --tier ${TIER:-quick} > /tmp/runall-$p.log 2>&1; rc=$?
  e=$(date +%s)
  echo "$p exit=$rc wall=$((e-s))s $(grep -c 'inconclusive\|explored-no' /tmp/runall-$p.log) non-discharged obligations; $(grep -c '^VIOLATION' /tmp/runall-$p.log) violations"
done
