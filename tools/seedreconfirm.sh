#!/bin/bash
# usage: seedreconfirm.sh <seed-name> - re-confirms a stored seed against the current /repo HEAD (after a fix: commit moved it):
# patch applies, demo exits 0 without / non-zero with the change, stable-pass tests still pass with the change.
name=$1; out=/verif/seeded/$name; sw=/tmp/sw-$name
git -C /repo worktree remove --force $sw 2>/dev/null
git -C /repo worktree add -q --detach $sw HEAD || exit 2
cd $sw
if ! git apply $out/patch.diff; then echo "PATCH DOES NOT APPLY to /repo HEAD: $name"; cd /; git -C /repo worktree remove --force $sw; exit 3; fi
PYTHONPATH=/repo/src /venv/bin/python $out/demo.py > $out/demo_unmodified.out 2>&1; a=$?
PYTHONPATH=$sw/src /venv/bin/python $out/demo.py > $out/demo_modified.out 2>&1; b=$?
echo "demo: unmodified exit=$a modified exit=$b"
/verif/tools/baseline.py $sw > $out/baseline.out 2>&1; c=$?
head -3 $out/baseline.out
cd /; git -C /repo worktree remove --force $sw
[ $a = 0 ] && [ $b != 0 ] && [ $c = 0 ] && echo "SEED CONFIRMED: $name" || echo "SEED NOT CONFIRMED: $name"
