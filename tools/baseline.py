#!/venv/bin/python
"""Runs the repository's test suite (guard OFF) and compares with the stable-pass list of /root/.vp/BASELINE.json.
usage: tools/baseline.py [repo_dir]   exit 0 iff every stable-pass test passes."""
import json, os, subprocess, sys, tempfile
import xml.etree.ElementTree as ET

repo = sys.argv[1] if len(sys.argv) > 1 else "/repo"
base = json.load(open("/root/.vp/BASELINE.json"))
want = set(base["stable_pass"])
with tempfile.TemporaryDirectory() as d:
    x = os.path.join(d, "j.xml")
    env = dict(os.environ)
    env.pop("WIKITEXTPROCESSOR_VERIF", None)
    env["PYTHONPATH"] = os.path.join(repo, "src")
    subprocess.run(["/venv/bin/python", "-m", "pytest", "-ra", "-q", "-p", "no:cacheprovider", "--timeout=900", "--continue-on-collection-errors", "--junitxml=" + x], cwd=repo, env=env, stdout=subprocess.DEVNULL, stderr=subprocess.DEVNULL)
    passed = set()
    for tc in ET.parse(x).getroot().iter("testcase"):
        if not any(c.tag in ("failure", "error", "skipped") for c in tc):
            passed.add(f"{tc.get('classname')}::{tc.get('name')}")
missing = sorted(want - passed)
print(f"stable_pass={len(want)} passed_now={len(passed)} missing={len(missing)}")
for m in missing[:30]:
    print("  NOT PASSING:", m)
sys.exit(1 if missing else 0)
