# property id -> manifest fields.  Edited by hand; tools/mkmanifest.py renders MANIFEST.json.
NA = {
    "C07": "Lua time limit: the mechanism is a debug.sethook count hook polling os.time() inside the C Lua interpreter and the property ranges over Lua programs and wall-clock time; no symbolic engine for Lua or the lupa C bridge is installed, and the Python side is a single string comparison.",
    "C08": "Lua frame API equivalences compare results that pass through the Lua VM (frame.args metatables, frame:preprocess); not encodable with CrossHair/z3. The Python argument-shaping half of make_frame is decided under C14.",
    "C11": "Crash safety depends on SQLite WAL/-shm recovery and file-system state at process-kill points (C library + OS); a solver model of those would verify the model, not the code.",
    "C19": "Needs parse o to_wikitext o parse over whole documents, i.e. the full parser twice, which symbolic execution cannot carry (DESIGN 1.3); the kernels in reach assert more or less than the property states.",
    "C20": "Interleavings of OS processes on a shared SQLite file; nothing installed executes Python+SQLite symbolically across processes.",
}
CHECKS = {
    "C16": dict(
        engine="E3 AST path encoder + z3; E1 CrossHair; E4 havoc",
        technique="z3 path queries over the AST of every function touching expand_stack (all syntactic paths, unbounded input); CrossHair symbolic execution of the message/start_page code",
        text="Balance of the expansion path is decided for every syntactic path of the real source (branch outcomes symbolic), under the callee-balanced induction hypothesis; message-record shape and start_page reset are confirmed over all paths for symbolic context fields within small string bounds. Counterexamples are replayed on Wtp.expand before being reported. For call_lua_sandbox the call into Lua is modelled as leaving any number L >= 0 of extra path entries (Python exceptions swallowed by pcall inside frame callbacks): only restoring the saved depth balances every returning path.",
        design_ref="DESIGN.md 3 C16",
        note="Assumes callees/hooks are balanced and that exceptions escaping expand() are out of scope; trusts the AST encoder (vf/astpaths.py), z3, CrossHair.",
    ),
}
CHECKS["C14"] = dict(
    engine="E1 CrossHair on AST slices; E2 z3 regex",
    technique="CrossHair symbolic execution of the three real argument-shaping code fragments (two AST-sliced from the current source) on skeleton strings with symbolic characters; z3 regular-language equality of the three classification rules (no length bound)",
    text="For every single argument up to the length bound and every 2(3)-argument list from the skeleton family, the parsed node's map, the expander's map and the Lua frame's map are equal (keys, key types, values): confirmed over all paths. The named/positional classification is proved equal as regular languages for unbounded length. Two recorded findings (regions excluded, concrete instances replayed each run). Because the Lua accessor is modelled, every run validates the model against the real accessor on 28 argument lists (#invoke of an echo module); a third recorded finding (numeric names above 1000 are clamped in the Lua frame) was found by the thorough tier.",
    design_ref="DESIGN.md 3 C14",
    note="The Lua accessor's trim is modelled (pattern re-read from the Lua file) rather than executed; values are plain text; replays through parse/expand/#invoke use a stub for the absent ustring submodule.",
)
CHECKS["C18"] = dict(
    engine="E1 CrossHair",
    technique="CrossHair symbolic execution of the real parser functions against reference definitions; strings symbolic, integer arguments and locale triples enumerated by the generator",
    text="For every subject string up to the bound (all characters symbolic) and every enumerated integer argument, #len #pos #rpos #sub #replace #explode #titleparts padleft padright lc uc lcfirst ucfirst equal reference definitions transcribed from the MediaWiki manuals; formatnum|R inverts formatnum for numerals with symbolic digits under every distinct (decimal, separator, grouping) triple of the shipped locale files; plural selects by value; the binary-operator ladder of #expr (read from the AST and the live tables) orders every pair of operators as documented. Confirmed over all paths per condition; counterexamples replayed through Wtp.expand. The live #expr operator tables compute the documented values on exact integers (mod, arithmetic, comparisons, logic, round of halves); division and round on reals are explored only. The precedence ladder of expr_fn is read from the AST and compared with the documented order for every operator pair (z3, finite).",
    design_ref="DESIGN.md 3 C18",
    note="Reference definitions in refs/strfuncs.py are the oracle; set() inside parserfns is stubbed for the formatnum conditions; #titleparts region of the recorded finding is excluded; #expr precedence only in the thorough tier; urlencode not covered.",
)
CHECKS["C05"] = dict(
    engine="E1 CrossHair; E3 AST path encoder + z3",
    technique="CrossHair symbolic execution of every parser-function implementation with symbolic Unicode arguments (exceptions = counterexamples); z3 dominance queries over the AST for the depth guard, the namespace-table lookups and the #expr exception barrier; CrossHair case split for the loop detector",
    text="Totality of the parser functions is explored symbolically for 0..3 arguments of up to 2 Unicode characters each, with an identity and with an arbitrary expander (about half of the conditions are confirmed over all paths, the rest explored without counterexample); the template-depth guard dominates every recursive expansion on every syntactic path (z3, unbounded); namespace lookups with computed keys are dominated by membership tests; #expr's evaluator and result conversion are inside an exception barrier covering ValueError/ArithmeticError/TypeError; the loop detector equals its specification for all stacks of up to 5 entries and the loop test precedes the expansion of a call's arguments on every syntactic path (cycles closing through an argument are cut). Termination of expand() for every template graph is NOT claimed. The expansion-path balance queries of C16 are discharged here too (the depth guard and the loop detector read that stack). Every int() applied to argument text must sit inside a ValueError handler (CPython refuses numerals above 4300 digits): 18 unguarded sites, 13 raising inputs recorded as open findings and probed on every run; the #expr barrier must also cover RecursionError because the evaluator is recursive.",
    design_ref="DESIGN.md 3 C05",
    note="Page store stubbed to 'absent' in the totality harness; functions behind network/clock/dateparser are excluded (listed in evidence); floats are reals in CrossHair; replays go through Wtp.expand or call_parser_function.",
)
CHECKS["C09"] = dict(
    engine="E4 havoc via CrossHair; E3 AST path encoder + z3",
    technique="havoc harness under CrossHair: per-page context state symbolic, protocol start_page+parse/expand compared with a fresh context; z3 path query for in-place mutation of aliased module-level tables",
    text="For ALL values of the per-page slots (flags, line counters, section/title, cookie tables, message lists, expansion path, strip-marker counters, parser stack) left behind by any earlier page, start_page followed by parse()/expand() of each catalogue document gives the fresh-context tree, messages and expansion path: confirmed over all paths. No path through Wtp.__init__ mutates a module-level table through an alias; every returning path of call_lua_sandbox (exception handlers included) pops the Lua frame and environment stacks it pushed, so no invocation inherits another's environment. Counterexamples are replayed by finding a real dirtying history / a failing invocation followed by a stateful module. Every table mw.loadData/mw.loadJsonData cache results in is emptied by the function start_page calls (facts read from the current Lua source, replayed with a data module modified on one page). Objects handed to Lua by reference at sandbox initialisation (functools.partial captures) are never rebound by a context method.",
    design_ref="DESIGN.md 3 C09",
    note="Lua-side state is outside; assumes the begline representation invariant; documents are a fixed catalogue (10 documents x pre_expand on/off); container shapes fixed, contents symbolic.",
)
CHECKS["C10"] = dict(
    engine="E1 CrossHair",
    technique="CrossHair symbolic execution of add_page/get_page with a recording connection stub (symbolic titles, all spelling variants); solver-driven case split over operation histories on the real SQLite store and lru_cache against a dict model",
    text="For every symbolic title up to the bound and every spelling variant, the key add_page writes is among the titles get_page queries, and a title differing in the case of a later letter is not: confirmed over all paths. All histories of 3 (thorough 5) operations (add v1/v2, add v1 with another content model, add redirect, get, exists, body, resolve) over 2 titles agree with a dict model on the real store. CrossHair bypasses functools.lru_cache while tracing, so the history operations run untraced on the real memo after the solver has chosen the history.",
    design_ref="DESIGN.md 3 C10",
    note="SQL text is not interpreted in the recorder conditions (only bound values); commit/reopen identity is outside; histories are a bounded exhaustive case split driven by forks.",
)
CHECKS["C17"] = dict(
    engine="E1 CrossHair on the real code + SQLite",
    technique="CrossHair-driven exhaustive case split over bounded inclusion graphs, executing the real analyze_templates on a real SQLite store against an independent least-fixpoint closure",
    text="For every inclusion graph on 2 templates (each edge absent / exact / written with a lower-case initial), every classifier flag set and every placement of one redirect page (target, dangling, flagged or not, included or not), the marked set equals the closure plus the redirect rule and the analysis terminates; thorough adds 3-template graphs. The solver enumerates a finite space here - labelled as the weakest use of the technique. Edge spellings (lower-case initial, underscore, Template: prefix) cycle over the conditions and every second condition starts from a store in which need_pre_expand flags are already set. The analysis itself runs untraced (CrossHair would bypass the lru_cache memo it clears) under an alarm that turns non-termination into a failure; 3-template graphs are part of the quick tier.",
    design_ref="DESIGN.md 3 C17",
    note="Bounded (n<=3 quick, n<=4 thorough); redirect propagation modelled as one step after the closure; several redirects / chains outside.",
)
CHECKS["C02"] = dict(
    engine="E1 CrossHair; E2 z3 regex",
    technique="CrossHair symbolic execution of the real heading/rule/list/text handlers from an arbitrary valid parser state (inductive one-step lemmas); z3 regular-language lemmas for the line classification",
    text="From EVERY valid parser state of the abstraction (any set of open section levels, any chain of open */# list items with symbolic markers up to the bound) one heading, heading-end, rule, list or filler step leaves exactly the state the nesting model prescribes: confirmed over all paths. Since the lemmas are closed under the abstraction they compose to documents of any length (paper induction in DESIGN.md). Tokenizer patterns classify the three line shapes as assumed (unbounded length). Line-start syntax stays disabled for every well-nested sequence of argument re-parses (lists and headings inside template/link arguments that span lines).",
    design_ref="DESIGN.md 3 C02",
    note="Definition lists (; :), fillers with markup and headings inside HTML/tables are outside; assumes the begline representation invariant; replays go through Wtp.parse against an independent reference builder.",
)
CHECKS["C15"] = dict(
    engine="E1 CrossHair; E3 AST path encoder + z3",
    technique="CrossHair symbolic execution of nowiki_quote / preprocess_text / _finalize_expand / magic_fn on documents with pinned tags and symbolic content; z3 path queries over the expander's cookie loops",
    text="For every content string up to the bound (every markup character at every position): quoting leaves no markup outside entities and decodes back; <nowiki>c</nowiki> becomes exactly one N cookie holding c verbatim which finalisation renders quoted; the parse-side handler only adds the quoted text whatever the line-start state; a closed comment and the newline before it vanish. On every syntactic path of the expander's two cookie loops the N branch only re-emits the cookie; preprocess_text saves paired nowiki bodies before it replaces self-closing tags or removes comments (z3 shows the order matters, the AST gives the order). Finalisation substitutes cookies until none is left (fixed-point loop, AST fact, replayed with nowiki nested in up to 6 unexpanded constructs). parse('<nowiki>c</nowiki>') yields text only, c quoted exactly once (end to end, symbolic markup characters).",
    design_ref="DESIGN.md 3 C15",
    note="Embedding in arguments/links/cells through the whole pipeline is covered only by the path query and the replay catalogue; rev_ht stubbed by an association list; content bound is small (per-character behaviour).",
)
CHECKS["C01"] = dict(
    engine="E2 z3 regex; E1 CrossHair",
    technique="z3 sequence-theory language inclusion between the tokenizer's tag alternatives and tag_fn's own patterns (no length bound), emptiness and repeat-count lemmas; CrossHair on the string-merge kernel",
    text="Necessary conditions only: every tag-like token the tokenizer can emit is accepted by tag_fn (else tag_fn raises), no token alternative matches the empty string, every heading bookend is a key of the level table - all for strings of any length; the merge kernel establishes 'non-empty strings, no two adjacent, no placeholder characters' for symbolic children lists, attribute values lose their placeholder characters when a node is popped, and the URL part of an external link is merged/finalized when it becomes an argument. Whole-document well-formedness is NOT claimed. One magic_fn step on a saved template/parameter/link/external-link construct whose arguments open formatting, lists or rules leaves nothing it opened still open and never pops ROOT. Text tokens arriving after a closed link leave the link with at most one (trail) string and lose nothing.",
    design_ref="DESIGN.md 3 C01",
    note="\\b modelled by a marker literal (sound for inclusion, models replayed on Wtp.parse); placement rules, argument shapes and other raise sites are outside.",
)
CHECKS["C13"] = dict(
    engine="E1 CrossHair; E3 AST path encoder + z3",
    technique="CrossHair on check_template_need_expand with symbolic selection sets and on the AST-sliced expand_parserfn; z3 path queries over the hook call sites of the expander's cookie loop",
    text="The selection rule equals 'existing, not excluded and (selected or flagged)' on every combination of set None-ness/membership; the parser-function switches re-emit the call text for symbolic arguments with a balanced path; on every syntactic path of one template call the hooks run at most once, a used template_fn result bypasses the body lookup, and an unselected call is re-emitted exactly once without hooks. A second expand() on the same page, with an independently chosen selection, returns what the rule gives for that selection alone (real store, solver-driven case split). Calls left unexpanded come back with all their nested arguments: the final placeholder substitution runs to a fixed point.",
    design_ref="DESIGN.md 3 C13",
    note="Whole-page 'text comes back unchanged' and the hooks' argument map are outside (C14 covers the map); path conditions are uninterpreted, violating paths are replayed with recording hooks.",
)
CHECKS["C12"] = dict(
    engine="E1 CrossHair on AST slices",
    technique="CrossHair symbolic execution of the AST-sliced parse_dump_xml loop body (lxml element stubbed), of add_page with a recording connection and of add_default_templates",
    text="For every title of the skeleton family, namespace, selection, content model, text and redirect within the bounds, exactly the pages the statement selects are handed to the store with title, text, model and redirect target unchanged; add_page writes a canonical title unchanged and passes the fields through (template bodies reduced to their includable part); the four helper templates are added exactly when absent (confirmed over all paths); the includable-part pipeline used at ingestion has the required pass order and no early exit that skips an applicable pass. Two consecutive page elements through the slice of the whole loop (including the statements before it): the record stored for a page depends on that page only.",
    design_ref="DESIGN.md 3 C12",
    note="lxml/bz2 extraction is stubbed in the solver runs and exercised only by replays on generated dumps; duplicate page elements and the overwrite flow are outside; one recorded finding ('Main:' prefix in namespace 0).",
)
CHECKS["C04"] = dict(
    engine="E1 CrossHair (kernels, one AST slice)",
    technique="CrossHair symbolic execution of _template_to_body, the AST-sliced expand_args, if_fn/ifeq_fn/switch_fn and add_newline_to_expansion against reference definitions of the MediaWiki rules",
    text="Kernels only: the includable part of a template body equals an independent scanner on body skeletons with symbolic filler; parameter references resolve by trimmed name / positional numeral / default / literal for every symbolic name up to the bound; #if, #ifeq and #switch follow the ParserFunctions algorithm for symbolic arguments and every case skeleton; the automatic newline rule holds for all strings up to 3 characters (confirmed over all paths per condition); a page-level parameter reference has its default expanded on every syntactic path; the includable-part pipeline removes comments before it interprets noinclude, handles paired before unclosed noinclude, and has no early exit that skips an applicable pass (z3 over the pattern languages, unbounded). The end-to-end statement over template libraries is NOT claimed. The key under which the expander stores name=value is the key under which {{{name}}} looks it up (two slices composed). _template_to_body deletes exactly the comment-shaped and noinclude-shaped spans (z3 regular-language lemmas, no length bound) in one left-to-right scan, or - for separate passes - z3 decides whether the pass order can show and the witness is replayed.",
    design_ref="DESIGN.md 3 C04",
    note="Caller-frame expansion, duplicate order, recursion and the missing-template link need the whole expander and are outside; numeric comparison in #ifeq/#switch is a recorded finding; expand_recurse is the identity in the expand_args slice.",
)
CHECKS["C06"] = dict(
    engine="E1 CrossHair; z3 (finite query); AST fact",
    technique="CrossHair symbolic execution of lua_loader's path sanitiser (recording path stub) and of the attribute filter closure sliced from initialize_lua; z3 query over the retained-module / block-list tables read from the current Lua source and a fresh runtime's package.loaded",
    text="Python-side gates only: for every module name within the bounds the loader probes only relative paths without '..' components; the attribute filter refuses underscore names, non-str names and every attribute of the context-bound partial helpers for all names up to 4 characters; no capability library the host keeps in package.loaded is served by require() or by any reader of package.loaded that is exported into the sandbox environment; LuaRuntime is constructed with register_eval=False and the filter. What Lua code can do INSIDE the VM is not decided. Every value _lua_reset_env exports into the sandbox is resolved through local aliases and must not be a host capability; a suspicious export is confirmed by a probe module that uses it in the real sandbox. Phase 1 of the bootstrap never uses the host's _G as a value (source fact, replayed with data modules that report visible host libraries).",
    design_ref="DESIGN.md 3 C06",
    note="The environment whitelist, metatables and everything reachable by running Lua are outside; replays boot the real sandbox with a stub ustring module.",
)
CHECKS["C03"] = dict(
    engine="E1 CrossHair; E2 z3 regex",
    technique="CrossHair symbolic execution of the real table handlers from every table state of the abstraction (one-step lemmas) and of parse_attrs on written attributes; z3 regular-language inclusion for the table-attribute detector",
    text="Tables: from every state (table / caption / row with up to two closed cells of symbolic kind and an optional open cell) each of the tokens |-, |, !, ||, !!, |+, |} leaves exactly the state the written grid prescribes; by induction over tokens an r x c grid gives r rows of c cells of the written kind. Attributes: parse_attrs returns exactly the written map for symbolic names/values in all three quoting styles; the detector accepts the whole URL-safe attribute grammar (unbounded). The permitted-parent relation that drives HTML auto-closing equals the content-model rule of wikihtml.py on every ordered pair of allowed tags (z3 over the relation computed by the real code). Link/template argument lists are NOT claimed. Attributes written on a table, row or cell become that node's attribute map; `|` inside a link/template/parameter reference closes the current argument; line-start syntax stays disabled for every well-nested sequence of argument re-parses. Cell separators inside an open HTML element / link / template / external link in a cell are text.",
    design_ref="DESIGN.md 3 C03",
    note="State shapes are enumerated, kinds and text symbolic; cell text is concrete in the ||/!! steps (CrossHair artefact); vbar_split's back-reference pattern is not encodable.",
)
