#!/bin/bash
# usage: seedmatrix_par.sh [jobs] - every stored seed against its property's quick check, <jobs> (default 3) at a time, each on its
# own scratch worktree / generated-harness directory; results appended to /tmp/sm/results-par.tsv and written into each meta.json.
cd /verif
j=${1:-3}
rm -f /tmp/sm/results-par.tsv
ls seeded | grep -E '^C[0-9]+-[0-9]+$' | SM_RESULTS=/tmp/sm/results-par.tsv xargs -P $j -n 1 tools/seedsome.sh > /dev/null 2>&1
sort /tmp/sm/results-par.tsv | cut -f1-3
