#!/bin/bash
# usage: seedconfirm.sh <agent-worktree> <seed-name>
# Confirms a sub-agent's seeded change on a scratch worktree of /repo HEAD: patch applies, demo passes without /
# fails with the change, stable-pass tests still pass.  On success the seed is stored in /verif/seeded/<seed-name>/.
wt=$1; name=$2; out=/verif/seeded/$name
sw=/tmp/sw-$name
git -C /repo worktree remove --force $sw 2>/dev/null
git -C /repo worktree add -q --detach $sw HEAD || exit 2
cd $sw
if ! git apply $wt/seed/patch.diff; then echo "PATCH DOES NOT APPLY to /repo HEAD (rebase by hand in $sw)"; exit 3; fi
mkdir -p $out; git diff > $out/patch.diff; cp $wt/seed/demo.py $wt/seed/meta.json $out/
PYTHONPATH=/repo/src /venv/bin/python $out/demo.py > $out/demo_unmodified.out 2>&1; a=$?
PYTHONPATH=$sw/src /venv/bin/python $out/demo.py > $out/demo_modified.out 2>&1; b=$?
echo "demo: unmodified exit=$a modified exit=$b"
/verif/tools/baseline.py $sw > $out/baseline.out 2>&1; c=$?
cat $out/baseline.out | head -5
cd /; git -C /repo worktree remove --force $sw
[ $a = 0 ] && [ $b != 0 ] && [ $c = 0 ] && echo "SEED CONFIRMED: $name" || echo "SEED NOT CONFIRMED: $name"
