#!/usr/bin/env python3
"""Prints the table of DESIGN.md section 13 from the per-tier evidence files (wall time, obligations by verdict, solver queries)."""
import glob, json, os
V = os.path.dirname(os.path.dirname(os.path.abspath(__file__)))
rows = []
for pid in sorted({os.path.basename(f).split(".")[0] for f in glob.glob(os.path.join(V, "evidence", "C??.json"))}):
    cells = [pid]
    for tier in ("quick", "thorough"):
        f = os.path.join(V, "evidence", f"{pid}.{tier}.json")
        if not os.path.exists(f):
            cells += ["-", "-", "-"]
            continue
        e = json.load(open(f))
        obs = (e.get("coverage") or {}).get("obligation_table") or []
        verdicts = {}
        q = 0
        for o in obs:
            verdicts[o.get("verdict", "?")] = verdicts.get(o.get("verdict", "?"), 0) + 1
            q += int(o.get("queries", 0) or 0)
        cells += [f"{e.get('wall_s', 0):.0f} s", ", ".join(f"{n} {v}" for v, n in sorted(verdicts.items())), str(q)]
    rows.append(cells)
print("| id | quick wall | quick obligations | quick solver queries | thorough wall | thorough obligations | thorough solver queries |")
print("|----|-----------:|-------------------|---------------------:|--------------:|----------------------|------------------------:|")
for r in rows:
    print("| " + " | ".join(r) + " |")
