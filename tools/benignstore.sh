#!/bin/bash
# usage: benignstore.sh <agent-worktree> <ID> [set=benign]  - stores a behaviour-preserving refactoring produced by a sub-agent under
# seeded/benign/<ID>/ after confirming that it applies to /repo HEAD and that the stable-pass tests still pass with it.
wt=$1; id=$2; set_=${3:-benign}; out=/verif/seeded/$set_/$id; sw=/tmp/sw-$set_-$id
git -C /repo worktree remove --force $sw 2>/dev/null
git -C /repo worktree add -q --detach $sw HEAD || exit 2
cd $sw
if ! git apply $wt/seed/patch.diff; then echo "PATCH DOES NOT APPLY: $id"; cd /; git -C /repo worktree remove --force $sw; exit 3; fi
mkdir -p $out; git diff > $out/patch.diff; cp $wt/seed/meta.json $out/; [ -f $wt/seed/equiv.py ] && cp $wt/seed/equiv.py $out/
if [ -f $out/equiv.py ]; then
  (cd $out && export PYTHONHASHSEED=0 && PYTHONPATH=/repo/src timeout 600 /venv/bin/python equiv.py > /tmp/benign-$id-a.out 2>/dev/null; PYTHONPATH=$sw/src timeout 600 /venv/bin/python equiv.py > /tmp/benign-$id-b.out 2>/dev/null)
  sed -i "s#$sw#/repo#g" /tmp/benign-$id-b.out  # tracebacks carry the tree path
  if cmp -s /tmp/benign-$id-a.out /tmp/benign-$id-b.out; then e="equiv outputs identical ($(wc -l < /tmp/benign-$id-a.out) lines)"; else e="EQUIV OUTPUTS DIFFER"; fi
else e="no equiv.py"; fi
/verif/tools/baseline.py $sw > $out/baseline.out 2>&1; c=$?
head -1 $out/baseline.out; echo "$e"
cd /; git -C /repo worktree remove --force $sw; rm -f /tmp/benign-$id-a.out /tmp/benign-$id-b.out
[ $c = 0 ] && [ "${e:0:5}" != "EQUIV" ] && echo "BENIGN STORED: $id" || echo "BENIGN NOT CONFIRMED: $id"
