# C02 one-step: subtitle_start_fn / hline_fn from arbitrary open-section chain
from wikitextprocessor import Wtp
from wikitextprocessor.parser import (WikiNode, LevelNode, NodeKind, subtitle_start_fn, hline_fn, list_fn,
    KIND_TO_LEVEL, SUBTITLE_TO_KIND, _parser_push)
ctx = Wtp(quiet=True, quiet_output=True)
LV = {1: NodeKind.LEVEL1, 2: NodeKind.LEVEL2, 3: NodeKind.LEVEL3, 4: NodeKind.LEVEL4, 5: NodeKind.LEVEL5, 6: NodeKind.LEVEL6}
def build(mask: int, markers: str):
    ctx.start_page("T")
    root = WikiNode(NodeKind.ROOT, 0)
    ctx.parser_stack = [root]
    ctx.beginning_of_line = True; ctx.wsp_beginning_of_line = False
    ctx.pre_parse = False; ctx.linenum = 5; ctx.suppress_special = False
    ctx.begline_enabled = True; ctx.begline_disable_counter = 0
    for l in range(1, 7):
        if mask & (1 << (l - 1)):
            n = _parser_push(ctx, LV[l]); n.largs = [["h"]]
    for i in range(1, len(markers) + 1):
        n = _parser_push(ctx, NodeKind.LIST); n.sarg = markers[:i]
        n = _parser_push(ctx, NodeKind.LIST_ITEM); n.sarg = markers[:i]
        n.children.append("x\n")
    return root
def levels(): return [KIND_TO_LEVEL[n.kind] for n in ctx.parser_stack if n.kind in KIND_TO_LEVEL]
def check_heading(mask: int, L: int, nlist: int) -> bool:
    """
    pre: 0 <= mask < 64 and 1 <= L <= 6 and 0 <= nlist <= 2
    post: _
    """
    build(mask, "*#"[:nlist])
    before = levels()
    subtitle_start_fn(ctx, "<" + "=" * L)
    after = levels()
    ok = after == [x for x in before if x < L] + [L]
    ok = ok and all(n.kind in KIND_TO_LEVEL for n in ctx.parser_stack)
    parent, node = ctx.parser_stack[-2], ctx.parser_stack[-1]
    return ok and parent.children[-1] is node
def check_hline(mask: int) -> bool:
    """
    pre: 0 <= mask < 64
    post: _
    """
    build(mask, "")
    hline_fn(ctx, "----")
    top = ctx.parser_stack[-1]
    return all(l <= 2 for l in levels()) and isinstance(top.children[-1], WikiNode) and top.children[-1].kind == NodeKind.HLINE
