from wikitextprocessor import Wtp
from wikitextprocessor.parser import print_tree
ctx = Wtp(quiet=True, quiet_output=True)
fresh = Wtp(quiet=True, quiet_output=True)
DOC = "== H ==\n* a\n"
fresh.start_page("T")
EXPECT = print_tree(fresh.parse(DOC), 0, True)
def check_havoc(bol: bool, linenum: int, pre_parse: bool) -> bool:
    """
    post: _
    """
    ctx.beginning_of_line = bol
    ctx.linenum = linenum
    ctx.pre_parse = pre_parse
    ctx.start_page("T")
    return print_tree(ctx.parse(DOC), 0, True) == EXPECT
