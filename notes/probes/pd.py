# C19 kernel: to_attrs / parse_attrs round trip
from wikitextprocessor.parser import WikiNode, NodeKind, parse_attrs
from wikitextprocessor.node_expand import to_attrs
SAFE = "ab1-_."
def check_attr_rt(k: str, v: str) -> bool:
    """
    pre: 1 <= len(k) <= 3 and len(v) <= 3
    pre: all(c in "abc" for c in k)
    pre: all(c in SAFE for c in v)
    post: _
    """
    n = WikiNode(NodeKind.HTML, 0)
    n.attrs = {k: v}
    m = WikiNode(NodeKind.HTML, 0)
    parse_attrs(m, to_attrs(n))
    return m.attrs == {k: v}
