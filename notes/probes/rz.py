import re, sys, time
try:
    import re._parser as sre_parse, re._constants as C
except ImportError:
    import sre_parse, sre_constants as C
import z3

BETA = "\x01"  # marker standing for \b
def cls_any(dotall):
    return z3.AllChar(z3.ReSort(z3.StringSort())) if dotall else z3.Complement(z3.Re("\n")) & z3.AllChar(z3.ReSort(z3.StringSort()))
def rng(a,b): return z3.Range(chr(a), chr(b))
def category(c):
    if c == C.CATEGORY_DIGIT: return rng(48,57)
    if c == C.CATEGORY_SPACE: return z3.Union(*[z3.Re(x) for x in " \t\n\r\f\v"])
    if c == C.CATEGORY_WORD: return z3.Union(rng(48,57), rng(65,90), rng(97,122), z3.Re("_"))
    raise NotImplementedError(c)
ALLCH = z3.AllChar(z3.ReSort(z3.StringSort()))
def tr_in(items, ignorecase=False):
    neg = False; parts = []
    for op, av in items:
        if op == C.NEGATE: neg = True
        elif op == C.LITERAL: parts.append(z3.Re(chr(av)))
        elif op == C.RANGE: parts.append(rng(*av))
        elif op == C.CATEGORY:
            if av in (C.CATEGORY_NOT_SPACE,):
                parts.append(z3.Intersect(ALLCH, z3.Complement(category(C.CATEGORY_SPACE))))
            else: parts.append(category(av))
        else: raise NotImplementedError(op)
    u = parts[0] if len(parts)==1 else z3.Union(*parts)
    if neg: return z3.Intersect(ALLCH, z3.Complement(u))
    return u
def tr(seq, flags):
    out = []
    for op, av in seq:
        if op == C.LITERAL: out.append(z3.Re(chr(av)))
        elif op == C.NOT_LITERAL: out.append(z3.Intersect(ALLCH, z3.Complement(z3.Re(chr(av)))))
        elif op == C.ANY: out.append(cls_any(flags & re.S))
        elif op == C.IN: out.append(tr_in(av))
        elif op == C.BRANCH: out.append(z3.Union(*[tr(b, flags) for b in av[1]]))
        elif op == C.SUBPATTERN: out.append(tr(av[3], flags))
        elif op in (C.MAX_REPEAT, C.MIN_REPEAT):
            lo, hi, sub = av; r = tr(sub, flags)
            if hi == C.MAXREPEAT:
                out.append(z3.Star(r) if lo == 0 else (z3.Plus(r) if lo == 1 else z3.Concat(*([r]*lo + [z3.Star(r)]))))
            else: out.append(z3.Loop(r, lo, hi))
        elif op == C.AT:
            if av == C.AT_BOUNDARY: out.append(z3.Re(BETA))
            elif av in (C.AT_BEGINNING, C.AT_BEGINNING_STRING, C.AT_END, C.AT_END_STRING): pass  # handled by caller (fullmatch semantics)
            else: raise NotImplementedError(av)
        elif op == C.CATEGORY: out.append(category(av))
        else: raise NotImplementedError(op)
    if not out: return z3.Re("")
    return out[0] if len(out)==1 else z3.Concat(*out)
def to_z3(pat, flags=0):
    p = sre_parse.parse(pat, flags)
    return tr(p, p.state.flags | flags)

if __name__ == "__main__":
    from wikitextprocessor import parser as P
    TOK_START, TOK_END = P.token_list[20], P.token_list[21]
    TAGFN_START = (r"""<([-a-zA-Z0-9]+)\s*((\b[-a-zA-Z0-9:]+(\s*=\s*("[^"]*"|"""
        r"""'[^']*'|[^ \t\n"'`=<>]*))?\s*)*)/?>""")
    TAGFN_END = r"</([-a-zA-Z0-9]+)\s*>"
    A = z3.Union(to_z3(TOK_START), to_z3(TOK_END))
    anystar = z3.Star(ALLCH)
    B = z3.Union(z3.Concat(to_z3(TAGFN_START), anystar), z3.Concat(to_z3(TAGFN_END), anystar))
    s = z3.String("s")
    for name, (a, b) in {"tok⊆tagfn": (A, B)}.items():
        sol = z3.Solver(); sol.set("timeout", 120000)
        sol.add(z3.InRe(s, a), z3.Not(z3.InRe(s, b)))
        t=time.time(); r = sol.check(); print(name, r, round(time.time()-t,2), sol.model() if str(r)=="sat" else "")
    # mutant: tokenizer allows underscore in end tag names
    A2 = z3.Union(to_z3(TOK_START), to_z3(r"</[-a-zA-Z0-9_]+\s*>"))
    sol = z3.Solver(); sol.set("timeout", 120000)
    sol.add(z3.InRe(s, A2), z3.Not(z3.InRe(s, B)))
    t=time.time(); r = sol.check(); print("mutant", r, round(time.time()-t,2), sol.model() if str(r)=="sat" else "")
    # witness
    sol = z3.Solver(); sol.add(z3.InRe(s, A), z3.Length(s) > 8); print("witness", sol.check(), sol.model())
