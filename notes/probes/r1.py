from wikitextprocessor import Wtp
from wikitextprocessor.core import Page
ctx = Wtp(quiet=True, quiet_output=True)
class Rec:
    def __init__(self): self.calls=[]
    def execute(self, q, params=()):
        self.calls.append((q, tuple(params)))
        return iter(())
    def commit(self): pass
real = ctx.db_conn
raw_get = type(ctx).get_page.__wrapped__
ALPHA = "aA_ :t"
def stored_key(title, ns):
    r = Rec(); ctx.db_conn = r
    try:
        ctx.add_page(title, ns, "b")
    finally:
        ctx.db_conn = real
    return r.calls[0][1][0]
def lookup_titles(title, ns):
    r = Rec(); ctx.db_conn = r
    try:
        raw_get(ctx, title, ns)
    finally:
        ctx.db_conn = real
    if not r.calls: return []
    p = r.calls[0][1]
    return [x for x in p if isinstance(x, str)]
def check_lookup_underscore(t: str) -> bool:
    """
    pre: 1 <= len(t) <= 4
    pre: all(c in ALPHA for c in t)
    pre: "_" not in t and not t.startswith("Main:")
    post: _
    """
    k = stored_key(t, 10)
    return k in lookup_titles(t.replace(" ", "_"), 10)
def check_lookup_lcprefix(t: str) -> bool:
    """
    pre: 1 <= len(t) <= 4
    pre: all(c in ALPHA for c in t)
    pre: "_" not in t and ":" not in t
    post: _
    """
    k = stored_key("Template:" + t, 10)
    return k in lookup_titles("template:" + t, 10) and k in lookup_titles("T:" + t, 10) and k in lookup_titles(t, 10)
