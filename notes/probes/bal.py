"""Prototype: path-sensitive balance analysis of expand_stack append/pop from the AST, decided by z3."""
import ast, sys, z3, itertools, time
SRC = "/repo/src/wikitextprocessor/core.py"
tree = ast.parse(open(SRC).read())

def is_stack_call(node, meth):
    return (isinstance(node, ast.Call) and isinstance(node.func, ast.Attribute) and node.func.attr == meth
            and isinstance(node.func.value, ast.Attribute) and node.func.value.attr == "expand_stack")

class Fn:
    def __init__(self, node):
        self.node = node; self.n = itertools.count(); self.exits = []  # (kind, lineno, guard, d)
    def fresh(self, line): return z3.Bool(f"b{line}_{next(self.n)}")
    def delta(self, stmt):
        """net effect of the expression-level calls in a simple statement (no nested control flow)"""
        d = 0
        for sub in ast.walk(stmt):
            if is_stack_call(sub, "append"): d += 1
            elif is_stack_call(sub, "pop"): d -= 1
        return d
    def block(self, stmts, g, d, loop):
        """returns (guard, d) for falling off the end of the block"""
        for s in stmts:
            if isinstance(s, (ast.FunctionDef, ast.ClassDef)):
                continue
            if isinstance(s, ast.If):
                c = self.fresh(s.lineno)
                g1, d1 = self.block(s.body, z3.And(g, c), d, loop)
                g2, d2 = self.block(s.orelse, z3.And(g, z3.Not(c)), d, loop)
                g, d = z3.Or(g1, g2), z3.If(g1, d1, d2)
            elif isinstance(s, (ast.For, ast.While)):
                # loop body must be balanced per iteration; analysed as its own region
                gi, di = self.block(s.body, z3.BoolVal(True), z3.IntVal(0), True)
                self.exits.append(("loop-body-end", s.body[-1].end_lineno, gi, di))
                if s.orelse: g, d = self.block(s.orelse, g, d, loop)
            elif isinstance(s, ast.With):
                g, d = self.block(s.body, g, d, loop)
            elif isinstance(s, ast.Try):
                g, d = self.block(s.body, g, d, loop)
                g, d = self.block(s.finalbody, g, d, loop)
            elif isinstance(s, ast.Return):
                d = d + self.delta(s)
                self.exits.append(("return", s.lineno, g, d)); g = z3.BoolVal(False)
            elif isinstance(s, (ast.Continue, ast.Break)):
                self.exits.append((type(s).__name__.lower(), s.lineno, g, d)); g = z3.BoolVal(False)
            elif isinstance(s, ast.Raise):
                g = z3.BoolVal(False)
            else:
                d = d + self.delta(s)
        return g, d
    def run(self):
        g, d = self.block(self.node.body, z3.BoolVal(True), z3.IntVal(0), False)
        self.exits.append(("fallthrough", self.node.end_lineno, g, d))
        bad = []
        for kind, line, g, d in self.exits:
            s = z3.Solver(); s.add(g, d != 0)
            if s.check() == z3.sat:
                m = s.model()
                taken = sorted((str(v), m[v]) for v in m if z3.is_true(m[v]) or z3.is_false(m[v]))
                bad.append((kind, line, m.eval(d), [str(v) for v in m if z3.is_true(m[v])]))
        return bad

t = time.time(); q = 0
for node in ast.walk(tree):
    if isinstance(node, ast.FunctionDef) and any(is_stack_call(x, "append") or is_stack_call(x, "pop") for x in ast.walk(node)):
        # only analyse functions that directly contain stack ops outside nested defs
        direct = False
        for s in ast.walk(node):
            pass
        f = Fn(node); bad = f.run(); q += len(f.exits)
        print(f"{node.name}@{node.lineno}: exits={len(f.exits)} unbalanced={bad}")
print("queries", q, "time", round(time.time() - t, 2))
