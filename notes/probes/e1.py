from wikitextprocessor.parserfns import expr_fn
class Ctx:
    def warning(self,*a,**k): pass
ident = lambda x: x
NUM = "0123456789.-"
def check_pow(a: str, b: str) -> bool:
    """
    pre: 1 <= len(a) <= 2 and 1 <= len(b) <= 2
    pre: all(c in NUM for c in a) and all(c in NUM for c in b)
    post: True
    """
    return isinstance(expr_fn(Ctx(), "#expr", [a + " ^ " + b], ident), str)
def check_ln(a: str) -> bool:
    """
    pre: 1 <= len(a) <= 3
    pre: all(c in NUM for c in a)
    post: True
    """
    return isinstance(expr_fn(Ctx(), "#expr", ["ln " + a], ident), str)
def check_round(a: str, b: str) -> bool:
    """
    pre: 1 <= len(a) <= 2 and 1 <= len(b) <= 3
    pre: all(c in NUM for c in a) and all(c in NUM for c in b)
    post: True
    """
    return isinstance(expr_fn(Ctx(), "#expr", [a + " round " + b], ident), str)
def check_add(a: str, b: str) -> bool:
    """
    pre: 1 <= len(a) <= 2 and 1 <= len(b) <= 2
    pre: all(c in NUM for c in a) and all(c in NUM for c in b)
    post: True
    """
    return isinstance(expr_fn(Ctx(), "#expr", [a + " + " + b], ident), str)
