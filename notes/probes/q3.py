# C15: nowiki inertness via real expand with symbolic hole
import html
from wikitextprocessor import Wtp
ctx = Wtp(quiet=True, quiet_output=True)
ctx.add_page("Template:a", 10, "EXPANDED")
ALPHA = "{}[]|a<>'=*#:&;!-\n "
def check_nowiki(c: str) -> bool:
    """
    pre: len(c) <= 3
    pre: all(ch in ALPHA for ch in c)
    post: _
    """
    ctx.start_page("T")
    out = ctx.expand("<nowiki>" + c + "</nowiki>")
    if c == "":
        return True
    return html.unescape(out) == c
