# expr_fn totality, symbolic string
from wikitextprocessor.parserfns import expr_fn, padleft_fn, pos_fn, formatnum_fn, pad_fn
class Ctx:
    LOCALIZATION_DATA = {"decimal_point": ".", "grouping_separator": ",", "grouping_method": (3, 0)}
    LOCALIZATION_ALLOWED_REVERSABLE_NUMBER_CHARS = set(",.0123456789")
    def warning(self,*a,**k): pass
ident = lambda x: x
ALPHA = "0123456789.^-*/ ()elnmodrutcabsqxpif<>=!+"
def check_expr_total(s: str) -> bool:
    """
    pre: len(s) <= 3
    pre: all(c in ALPHA for c in s)
    post: True
    """
    return isinstance(expr_fn(Ctx(), "#expr", [s], ident), str)

def check_padleft_total(v: str, c: str, p: str) -> bool:
    """
    pre: len(v) <= 2 and len(c) <= 2 and len(p) <= 2
    post: True
    """
    return isinstance(padleft_fn(Ctx(), "padleft", [v, c, p], ident), str)

def check_pad_total(v: str, p: str) -> bool:
    """
    pre: len(v) <= 2 and len(p) <= 2
    post: True
    """
    return isinstance(pad_fn(Ctx(), "#pad", [v, "5", p], ident), str)
