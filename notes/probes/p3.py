import re
from wikitextprocessor.common import nowiki_quote, _nowiki_map

_inv = {v: k for k, v in _nowiki_map.items()}
def decode(t: str) -> str:
    # reference decoder: replace each documented entity by its char, left to right
    out = []
    i = 0
    while i < len(t):
        if t[i] == "&":
            j = t.find(";", i)
            if j > 0 and t[i:j+1] in _inv:
                out.append(_inv[t[i:j+1]])
                i = j + 1
                continue
        out.append(t[i])
        i += 1
    return "".join(out)

def check_nowiki(s: str) -> bool:
    """
    pre: len(s) <= 3
    post: _
    """
    q = nowiki_quote(s)
    return all(ch not in q for ch in "=<>*#:!|[]{}\"'_") 

def san(path: str) -> str:
    path = re.sub(r"[\0-\037]", "", path)  # Remove control chars, e.g. \n
    path = path.replace(":", "/")
    path = path.replace(" ", "_")
    path = re.sub(r"//+", "/", path)  # Replace multiple slashes by one
    path = re.sub(r"\.\.+", ".", path)  # Replace .. and longer by .
    path = re.sub(r"^//+", "", path)  # Remove initial slashes
    path += ".lua"
    return path

def check_san(p: str) -> bool:
    """
    pre: len(p) <= 4
    post: _
    """
    r = san(p)
    return ".." not in r and not r.startswith("/")
