# C13: untouched call round trip with symbolic holes
from wikitextprocessor import Wtp
ctx = Wtp(quiet=True, quiet_output=True)
PLAIN = "ab1 \n="
def check_rt(name: str, a: str) -> bool:
    """
    pre: 1 <= len(name) <= 2 and len(a) <= 3
    pre: all(ch in "ab" for ch in name)
    pre: all(ch in PLAIN for ch in a)
    post: _
    """
    ctx.start_page("T")
    t = "x{{" + name + "|" + a + "}}y"
    return ctx.expand(t, pre_expand=True) == t
