from wikitextprocessor import Wtp
from wikitextprocessor.parser import print_tree
ctx = Wtp(quiet=True, quiet_output=True)
fresh = Wtp(quiet=True, quiet_output=True)
DOC = "== H ==\n* a\n** b\n<pre>x</pre>\n{|\n| c\n|}\n[[l]] ''i''\n"
fresh.start_page("T")
EXPECT = print_tree(fresh.parse(DOC), 0, True)
def check_havoc(bol: bool, wbol: bool, linenum: int, pre_parse: bool, supp: bool, sec: str, n_stack: int) -> bool:
    """
    pre: 0 <= n_stack <= 2
    post: _
    """
    ctx.beginning_of_line = bol
    ctx.wsp_beginning_of_line = wbol
    ctx.linenum = linenum
    ctx.pre_parse = pre_parse
    ctx.suppress_special = supp
    ctx.section = sec
    ctx.expand_stack = ["x"] * n_stack
    ctx.start_page("T")
    return print_tree(ctx.parse(DOC), 0, True) == EXPECT
