# C04/C12: _template_to_body vs reference, skeleton with symbolic holes
import re
from wikitextprocessor import Wtp
ctx = Wtp(quiet=True, quiet_output=True)
H = "a<!->n/ "
def ref(a: str, b: str, c: str) -> str:
    # a<noinclude>b</noinclude>c  with holes free of '<' : includable part is a+c
    return a + c
def check_noinclude(a: str, b: str, c: str) -> bool:
    """
    pre: len(a) <= 2 and len(b) <= 2 and len(c) <= 2
    pre: all(ch in "ab \n>-" for ch in a + b + c)
    post: _
    """
    return ctx._template_to_body("t", a + "<noinclude>" + b + "</noinclude>" + c) == ref(a, b, c)
