# C05: operator tables totality with libm contracts
import math
from typing import Union
from wikitextprocessor import parserfns as PF
DBL_MAX_LOG = 709.78
class Contract(Exception): pass
def contract(name, *a):
    # documented libm/CPython behaviour: returns True if the call raises
    x = a[0]
    if name == "exp": return x > DBL_MAX_LOG
    if name == "log": return x <= 0
    if name in ("acos", "asin"): return x < -1 or x > 1
    if name == "sqrt": return x < 0
    if name == "pow":
        y = a[1]
        return (x == 0 and y < 0) or (x < 0 and y != int(y)) or (abs(x) > 1 and y * 1 > 1024)  # coarse overflow region
    return False
def call(fn, *a):
    if type(fn).__name__ == "builtin_function_or_method" and getattr(fn, "__module__", "") == "math":
        if contract(fn.__name__, *a):
            raise Contract(fn.__name__)
        return 0.0
    return fn(*a)
def check_mul_int(x: int, y: int) -> bool:
    """
    post: True
    """
    for name, fn in PF.binary_mul_fns.items():
        call(fn, x, y)
    return True
def check_round(x: int, y: float) -> bool:
    """
    post: True
    """
    call(PF.binary_round_fns["round"], x, y)
    return True
def check_unary(x: float) -> bool:
    """
    post: True
    """
    for name, fn in PF.unary_fns.items():
        call(fn, x)
    return True
