from wikitextprocessor.parserfns import sub_fn, pos_fn, padleft_fn, titleparts_fn, explode_fn
from wikitextprocessor.common import nowiki_quote
import html

class Ctx:
    def warning(self,*a,**k): pass
    def debug(self,*a,**k): pass
    def error(self,*a,**k): pass
ident = lambda x: x

def ref_sub(s: str, start: int, length: int) -> str:
    s = s.strip()
    n = len(s)
    if start < 0:
        start = max(0, n + start)
    start = min(start, n)
    if length == 0:
        end = n
    elif length < 0:
        end = max(start, n + length)
    else:
        end = min(n, start + length)
    return s[start:end]

def check_sub(s: str, start: int, length: int) -> bool:
    """
    pre: len(s) <= 5
    pre: -7 <= start <= 7
    pre: -7 <= length <= 7
    post: _
    """
    return sub_fn(Ctx(), "#sub", [s, str(start), str(length)], ident) == ref_sub(s, start, length)

def check_nowiki(s: str) -> bool:
    """
    pre: len(s) <= 5
    post: _
    """
    return html.unescape(nowiki_quote(s)) == s
