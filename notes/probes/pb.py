# formatnum R round trip
from wikitextprocessor.parserfns import formatnum_fn
class Ctx:
    LOCALIZATION_DATA = {"decimal_point": ",", "grouping_separator": ".", "grouping_method": (3, 0)}
    LOCALIZATION_ALLOWED_REVERSABLE_NUMBER_CHARS = set(",.0123456789")
    def warning(self,*a,**k): pass
ident = lambda x: x
def check_fmt_rt(s: str) -> bool:
    """
    pre: 1 <= len(s) <= 7
    pre: all(c in "0123456789." for c in s)
    pre: s.count(".") <= 1 and s[0] != "." and s[-1] != "."
    post: _
    """
    c = Ctx()
    f = formatnum_fn(c, "formatnum", [s], ident)
    return formatnum_fn(c, "formatnum", [f, "R"], ident) == s
