from wikitextprocessor import Wtp
from wikitextprocessor.parser import print_tree
ctx = Wtp(quiet=True, quiet_output=True)
fresh = Wtp(quiet=True, quiet_output=True)
DOC = "== H ==\n* a\n"
fresh.start_page("T")
EXPECT = print_tree(fresh.parse(DOC), 0, True)
def check_havoc(wbol: bool, supp: bool, sec: str, n_stack: int, cnt: int, en: bool) -> bool:
    """
    pre: 0 <= n_stack <= 2
    post: _
    """
    ctx.wsp_beginning_of_line = wbol
    ctx.suppress_special = supp
    ctx.section = sec
    ctx.expand_stack = ["x"] * n_stack
    ctx.begline_disable_counter = cnt
    ctx.begline_enabled = en
    ctx.start_page("T")
    return print_tree(ctx.parse(DOC), 0, True) == EXPECT
