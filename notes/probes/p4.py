from wikitextprocessor import Wtp, WikiNode, NodeKind
ctx = Wtp(quiet=True, quiet_output=True)

def wf(node) -> bool:
    prev_str = False
    for c in node.children:
        if isinstance(c, str):
            if not c or prev_str:
                return False
            prev_str = True
        else:
            prev_str = False
            if not wf(c):
                return False
    return True

def check_parse(s: str) -> bool:
    """
    pre: len(s) <= 3
    post: _
    """
    ctx.start_page("T")
    root = ctx.parse(s)
    return root.kind == NodeKind.ROOT and wf(root) and ctx.parser_stack == []
