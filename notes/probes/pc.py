# C14 kernel: three views of a single argument
import re
from wikitextprocessor.parser import TemplateNode
CORE_RE = re.compile(r"""(?s)^\s*([^][&<>="]+?)\s*=\s*(.*?)\s*$""")
LUA_RE = re.compile(r"""(?s)^\s*([^<>="']+?)\s*=\s*(.*?)\s*$""")
def core_view(arg: str):
    m = CORE_RE.match(arg)
    if m:
        k, v = m.groups()
        if k.isdigit() and int(k) > 0:
            k = int(k)
        else:
            k = re.sub(r"\s+", " ", k).strip()
        return (k, v)
    return (1, arg)
def lua_view(arg: str):
    m = LUA_RE.match(arg)
    if m:
        k, v = m.groups()
        if k.isdigit() and int(k) > 0:
            k = int(k)
        return (k, v.strip())   # named trimmed in frame_args_index
    return (1, arg)
def node_view(arg: str):
    n = TemplateNode(1, ())
    n.largs = [["t"], [arg] if arg else []]
    p = n.template_parameters
    return list(p.items())[0] if p else None
PLAIN = "ab1 \n="
def check_views(arg: str) -> bool:
    """
    pre: 1 <= len(arg) <= 5
    pre: all(c in PLAIN for c in arg)
    pre: arg.strip() != "" 
    post: _
    """
    return core_view(arg) == lua_view(arg)
