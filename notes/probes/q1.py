from wikitextprocessor.core import detect_expand_template_loop
def ref(stack):
    n = len(stack)
    for i in range(n):
        suffix = stack[i:]
        for p in range(1, len(suffix)//2 + 1):
            if len(suffix) % p == 0 and not suffix[0].startswith("ARGVAL-") and suffix == suffix[:p] * (len(suffix)//p):
                return True
    return False
NAMES = ("Template:a", "Template:b", "ARGVAL-1", "T")
def check_loop(idx: list[int]) -> bool:
    """
    pre: len(idx) <= 6
    pre: all(0 <= i < 4 for i in idx)
    post: _
    """
    stack = [NAMES[i] for i in idx]
    return detect_expand_template_loop(stack) == ref(stack)
