import re
from wikitextprocessor import parser as P

START_ALT = P.token_list[20]
END_ALT = P.token_list[21]
TOK_START = re.compile(START_ALT)
TOK_END = re.compile(END_ALT)
# tag_fn's regexes, extracted (later: from AST)
TAGFN_START = re.compile(r"""<([-a-zA-Z0-9]+)\s*((\b[-a-zA-Z0-9:]+(\s*=\s*("[^"]*"|"""
        r"""'[^']*'|[^ \t\n"'`=<>]*))?\s*)*)/?>""")
TAGFN_END = re.compile(r"</([-a-zA-Z0-9]+)\s*>")

def check_tag_tokens(t: str) -> bool:
    """
    pre: len(t) <= 7
    pre: TOK_START.fullmatch(t) is not None or TOK_END.fullmatch(t) is not None
    post: _
    """
    return TAGFN_START.match(t) is not None or TAGFN_END.match(t) is not None

def witness(t: str) -> bool:
    """
    pre: len(t) <= 7
    pre: TOK_START.fullmatch(t) is not None or TOK_END.fullmatch(t) is not None
    post: False
    """
    return True
