from wikitextprocessor.parserfns import sub_fn
class Ctx:
    def warning(self,*a,**k): pass
ident = lambda x: x

def ref_sub(s: str, start: int, length: int) -> str:
    s = s.strip()
    n = len(s)
    if start < 0:
        start = max(0, n + start)
    start = min(start, n)
    if length == 0:
        end = n
    elif length < 0:
        end = max(start, n + length)
    else:
        end = min(n, start + length)
    return s[start:end]

def check_sub_m2_1(s: str) -> bool:
    """
    pre: len(s) <= 5
    post: _
    """
    return sub_fn(Ctx(), "#sub", [s, "-2", "1"], ident) == ref_sub(s, -2, 1)

def check_sub_strip(s: str) -> bool:
    """
    pre: len(s) <= 4
    post: _
    """
    return sub_fn(Ctx(), "#sub", [s, "1", "-1"], ident) == ref_sub(s, 1, -1)
