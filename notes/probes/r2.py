from wikitextprocessor.parser import TemplateNode
def check_tp(k: str, v: str) -> bool:
    """
    pre: 1 <= len(k) <= 2 and 1 <= len(v) <= 3
    pre: all(c in "ab" for c in k)
    pre: all(c in "ab \n" for c in v) and v.strip() != ""
    post: _
    """
    n = TemplateNode(1, ())
    n.largs = [["t"], [k + "=" + v]]
    return n.template_parameters == {k: v.strip()}
