from wikitextprocessor import Wtp
from wikitextprocessor.core import Page
NAMES = ["A b", "é", "c"]
ctx = Wtp(quiet=True, quiet_output=True)
BUDGET = 200
def run(n, edges, flags):
    ctx.db_conn.execute("DELETE FROM pages")
    for i in range(n):
        ctx.add_page("Template:" + NAMES[i], 10, "x")
    type(ctx).get_page.cache_clear()
    inc = {NAMES[i]: {NAMES[j] for j in range(n) if edges[i][j]} for i in range(n)}   # i includes j
    flg = {NAMES[i]: flags[i] for i in range(n)}
    def chk(wtp, page: Page):
        nm = page.title.removeprefix("Template:")
        return set(inc[nm]), flg[nm]
    ctx.analyze_templates(chk)
    got = {p.title.removeprefix("Template:") for p in ctx.get_all_pages([10]) if p.need_pre_expand}
    want = {NAMES[i] for i in range(n) if flags[i]}
    changed = True
    while changed:
        changed = False
        for i in range(n):
            if NAMES[i] not in want and inc[NAMES[i]] & want:
                want.add(NAMES[i]); changed = True
    return got == want
def check2(e00: bool, e01: bool, e10: bool, e11: bool, f0: bool, f1: bool) -> bool:
    """
    post: _
    """
    return run(2, [[e00, e01], [e10, e11]], [f0, f1])
