from wikitextprocessor import Wtp
ctx = Wtp(quiet=True, quiet_output=True)
fresh = Wtp(quiet=True, quiet_output=True)
for c in (ctx, fresh):
    c.add_page("Template:a", 10, "A{{{1|d}}}{{b|x={{{1}}}}}")
    c.add_page("Template:b", 10, "* B{{{x}}}<nowiki>{{a}}</nowiki>")
    c.db_conn.commit()
DOCS = ["{{a|q}} [[l|{{b|x=1}}]] <nowiki>''</nowiki> {{#if:x|y|z}} {{{u|v}}} {{missing}}", "{{a}}\n== h ==\n{{#expr: 1 + 2}}"]
EXP = []
for d in DOCS:
    fresh.start_page("T"); EXP.append((fresh.expand(d), fresh.expand(d, pre_expand=True), repr(fresh.to_return())))
def check_havoc_expand(bol: bool, linenum: int, pre_parse: bool, sec: str, st: list[str], ncook: int, junk: str) -> bool:
    """
    pre: len(st) <= 3 and 0 <= ncook <= 2 and len(junk) <= 2
    post: _
    """
    ctx.beginning_of_line = bol
    ctx.linenum = linenum
    ctx.pre_parse = pre_parse
    ctx.section = sec
    ctx.subsection = sec
    ctx.expand_stack = st
    ctx.cookies = [("T", (junk,), False)] * ncook
    ctx.rev_ht = {("T", ("zz",), False): chr(0x10203D + 4)} if ncook else {}
    ctx.errors = [{"msg": junk}]; ctx.debugs = [{"msg": junk}]
    ctx.strip_marker_cache["nowiki"] = linenum
    ok = True
    for d, e in zip(DOCS, EXP):
        ctx.start_page("T")
        ok = ok and (ctx.expand(d), ctx.expand(d, pre_expand=True), repr(ctx.to_return())) == e
    return ok
