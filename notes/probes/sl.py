import ast, re, textwrap
from typing import Union
import wikitextprocessor.core as core, wikitextprocessor.luaexec as lx
from wikitextprocessor.parser import TemplateNode

def find_for(tree, pred):
    for n in ast.walk(tree):
        if isinstance(n, ast.For) and pred(n):
            return n
def slice_v2():
    tree = ast.parse(open(core.__file__).read())
    f = find_for(tree, lambda n: ast.unparse(n.iter).startswith("map(str, args[1:])"))
    src = "def v2(self, args, parent, expand_recurse):\n    ht = {}\n    num = 1\n" + textwrap.indent(ast.unparse(f), "    ") + "\n    return ht\n"
    ns = {"re": re, "Union": Union}
    exec(compile(src, "<slice core.py:%d>" % f.lineno, "exec"), ns)
    return ns["v2"], src
def slice_v3():
    tree = ast.parse(open(lx.__file__).read())
    f = find_for(tree, lambda n: ast.unparse(n.iter) == "args" and "frame_args[k] = (arg, m is not None)" in ast.unparse(n))
    src = "def v3(ctx, args):\n    frame_args = {}\n    num = 1\n" + textwrap.indent(ast.unparse(f), "    ") + "\n    return frame_args\n"
    ns = {"re": re}
    exec(compile(src, "<slice luaexec.py:%d>" % f.lineno, "exec"), ns)
    return ns["v3"], src
V2, S2 = slice_v2(); V3, S3 = slice_v3()
class Self:
    def __init__(self): self.expand_stack = []
    def warning(self, *a, **k): pass
LUA_WS = " \t\n\v\f\r"
def view1(arg):
    n = TemplateNode(1, ()); n.largs = [["t"], [arg]]
    return dict(n.template_parameters)
def view2(arg):
    return V2(Self(), ("t", arg), None, lambda x, p, e: x)
def view3(arg):
    out = {}
    for k, (v, named) in V3(Self(), [arg]).items():
        out[k] = v.strip(LUA_WS) if named else v
    return out
PLAIN = "ab1 \n="
def check_views(arg: str) -> bool:
    """
    pre: 1 <= len(arg) <= 5
    pre: all(c in PLAIN for c in arg)
    pre: arg.count("=") <= 1
    pre: "=" not in arg or (arg.split("=")[0].strip() != "" and arg.split("=")[1].strip() != "")
    pre: "=" in arg or arg.strip() != ""
    post: _
    """
    return view1(arg) == view2(arg) == view3(arg)
if __name__ == "__main__":
    print(S2); print(S3)
    for a in ["x", " x ", "a=b", " a = b ", "1=z", "a\n= b\n", "\nx"]:
        print(repr(a), view1(a), view2(a), view3(a))
