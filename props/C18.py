"""C18 - parser functions compute their documented values (E1)."""
from __future__ import annotations

import glob
import json
import os

from vf import common as C
from vf import xh

H = os.path.join(C.VERIF, "harness", "C18_str.py")
HN = os.path.join(C.VERIF, "harness", "C18_num.py")
HOPS = os.path.join(C.VERIF, "harness", "C18_ops.py")


def _cond(name, params, pres, body, replay_body):
    pre = "\n".join("    pre: " + p for p in pres)
    ps = ", ".join(f"{p}: str" for p in params)
    return f'''
def {name}({ps}) -> bool:
    """
{pre}
    post: _
    """
{body}


def replay_{name}({", ".join(params)}):
{replay_body}
'''


def _n(i: int) -> str:
    return f"m{-i}" if i < 0 else str(i)


def gen_str(quick: bool) -> str:
    L = 3 if quick else 5
    K = 2 if quick else 6
    out = []
    S = [f"len(s) <= {L}", "all(c in ALPHA for c in s)"]
    ST = [f"len(s) <= {L}", "all(c in ALPHA_T for c in s)"]
    N = ["len(n) <= 2", "all(c in ALPHA for c in n)"]
    # len
    out.append(_cond("f_len", ["s"], S, '    return call("#len", s) == R.r_len(s)', '    return _rp("#len", [s], R.r_len(s))'))
    # pos
    for off in range(0, K + 1):
        out.append(_cond(f"f_pos_{off}", ["s", "n"], S + N, f'    return call("#pos", s, n, "{off}") == R.r_pos(s, n, {off})', f'    return _rp("#pos", [s, n, "{off}"], R.r_pos(s, n, {off}))'))
    out.append(_cond("f_pos_default", ["s", "n"], S + N, '    return call("#pos", s, n) == R.r_pos(s, n, 0)', '    return _rp("#pos", [s, n], R.r_pos(s, n, 0))'))
    out.append(_cond("f_rpos", ["s", "n"], S + N, '    return call("#rpos", s, n) == R.r_rpos(s, n)', '    return _rp("#rpos", [s, n], R.r_rpos(s, n))'))
    # sub: the integer range must exceed the string bound (|n| > len(s) is where clamping matters)
    KS = L + 1 if quick else K
    for a in range(-KS, KS + 1):
        for b in range(-KS, KS + 1):
            out.append(_cond(f"f_sub_{_n(a)}_{_n(b)}", ["s"], S, f'    return call("#sub", s, "{a}", "{b}") == R.r_sub(s, {a}, {b})', f'    return _rp("#sub", [s, "{a}", "{b}"], R.r_sub(s, {a}, {b}))'))
    out.append(_cond("f_sub_default", ["s"], S, '    return call("#sub", s) == R.r_sub(s, 0, 0)', '    return _rp("#sub", [s], R.r_sub(s, 0, 0))'))
    # replace
    out.append(_cond("f_replace", ["s", "n", "r"], S + N + ["len(r) <= 1", "all(c in ALPHA for c in r)"], '    return call("#replace", s, n, r) == R.r_replace(s, n, r)', '    return _rp("#replace", [s, n, r], R.r_replace(s, n, r))'))
    # explode: delimiter enumerated by the generator (str.split with a symbolic delimiter never exhausts), subject symbolic
    for di, delim in enumerate(["/", " ", "ab"] if quick else ["/", " ", "ab", ":", "a"]):
        for pos in range(-K, K + 1):
            for lim in ([0, 2] if quick else [0, 1, 2, 3]):
                args = f'"{pos}"' + (f', "{lim}"' if lim else "")
                out.append(_cond(f"f_explode_d{di}_{_n(pos)}_{lim}", ["s"], S, f'    return call("#explode", s, {delim!r}, {args}) == R.r_explode(s, {delim!r}, {pos}, {lim})', f'    return _rp("#explode", [s, {delim!r}, {args}], R.r_explode(s, {delim!r}, {pos}, {lim}))'))
    # urlencode in its three modes; #urldecode inverts the QUERY mode.  quick: every single character of the alphabet on its
    # own and between two letters (inner blank vs trimmed outer blank); thorough: all strings up to 3 characters
    if quick:
        shapes = [("", ["len(s) == 1", "s[0] in ALPHA_U"]), ("_mid", ["len(s) == 3", 's[0] == "a" and s[2] == "Z"', "s[1] in ALPHA_U"])]
    else:
        shapes = [("", ["len(s) <= 3", "all(c in ALPHA_U for c in s)"])]
    # runs of blanks between two letters (every blank is encoded on its own; nothing is collapsed)
    shapes.append(("_run", ["len(s) == 4", 's[0] == "a" and s[3] == "Z"', "s[1] in WS_U and s[2] in WS_U"]))
    for sfx, SU in shapes:
        for fmt in ("QUERY", "PATH", "WIKI", ""):
            a = f', "{fmt}"' if fmt else ""
            out.append(_cond(f"f_urlencode_{fmt or 'default'}{sfx}", ["s"], SU, f'    return call("urlencode", s{a}) == R.r_urlencode(s, "{fmt or "QUERY"}", codepoint)', f'    return _rp_url("{fmt}", s)'))
        out.append(_cond(f"f_urldecode_inverts{sfx}", ["s"], SU, '    return call("#urldecode", call("urlencode", s)) == R.trim(s)', '    return _rp("#urldecode", [via_expand("urlencode", s)], R.trim(s))'))
    # titleparts.  Domain: valid titles only (non-empty segments; MediaWiki returns an invalid title unchanged), and the
    # known-finding region is excluded: first segment >= 1, ':' in the title.
    STT = [f"1 <= len(s) <= {L}", "all(c in 'ab/' for c in s)", "s[0] != '/' and s[len(s) - 1] != '/' and '//' not in s"]
    for cnt in range(-K, K + 1):
        for first in range(-K, 1):
            out.append(_cond(f"f_titleparts_{_n(cnt)}_{_n(first)}", ["s"], STT, f'    return call("#titleparts", s, "{cnt}", "{first}") == R.r_titleparts(s, {cnt}, {first})', f'    return _rp("#titleparts", [s, "{cnt}", "{first}"], R.r_titleparts(s, {cnt}, {first}))'))
    # padleft / padright (first argument is not trimmed by these two)
    for n in list(range(0, K + 3)) + [-1]:
        for side, left in (("padleft", True), ("padright", False)):
            out.append(_cond(f"f_{side}_{_n(n)}", ["s", "n"], S + N, f'    return call("{side}", s, "{n}", n) == R.r_pad(s, {n}, n, {left})', f'    return _rp("{side}", [s, "{n}", n], R.r_pad(s, {n}, n, {left}))'))
    # case functions
    SU = [f"len(s) <= {L}", "all(c in 'aB é' for c in s)"]
    out.append(_cond("f_lc", ["s"], SU, '    return call("lc", s) == R.trim(s).lower()', '    return _rp("lc", [s], R.trim(s).lower())'))
    out.append(_cond("f_uc", ["s"], SU, '    return call("uc", s) == R.trim(s).upper()', '    return _rp("uc", [s], R.trim(s).upper())'))
    out.append(_cond("f_lcfirst", ["s"], SU, '    return call("lcfirst", s) == R.r_lcfirst(s)', '    return _rp("lcfirst", [s], R.r_lcfirst(s))'))
    out.append(_cond("f_ucfirst", ["s"], SU, '    return call("ucfirst", s) == R.r_ucfirst(s)', '    return _rp("ucfirst", [s], R.r_ucfirst(s))'))
    return "\n".join(out)


def locale_triples():
    """distinct (decimal, separator, grouping) triples of the shipped locale files + the built-in default"""
    tr = {}
    files = sorted(glob.glob(os.path.join(C.SRC, "data", "*", "localization.json")))
    for f in files:
        try:
            d = json.load(open(f))
            k = (d["decimal_point"], d["grouping_separator"], tuple(d.get("grouping_method", [])))
        except Exception:  # noqa: BLE001
            continue
        tr.setdefault(k, []).append(os.path.basename(os.path.dirname(f)))
    tr.setdefault((".", ",", (3, 0)), []).append("<default>")
    return tr, len(files)


def gen_num(quick: bool):
    tr, nfiles = locale_triples()
    shapes = [(1, 0), (3, 1), (4, 0), (5, 2), (7, 0)] if quick else [(i, f) for i in range(1, 8) for f in (0, 1, 3)] + [(9, 0), (12, 0)]
    out = []
    for li, (k, langs) in enumerate(sorted(tr.items())):
        dec, sep, grp = k
        for (ni, nf) in shapes:
            n = ni + (1 + nf if nf else 0)
            cs = " and ".join((f"x[{q}] in DIG" if not (nf and q == ni) else f'x[{q}] == "."') for q in range(n))
            out.append(f'''
def fmt_l{li}_{ni}_{nf}(x: str) -> bool:
    """
    pre: len(x) == {n}
    pre: {cs}
    post: _
    """
    set_locale({dec!r}, {sep!r}, {list(grp)!r})
    return roundtrip(x)


def replay_fmt_l{li}_{ni}_{nf}(x):
    return via_expand_roundtrip(x, {dec!r}, {sep!r}, {list(grp)!r})
''')
    # plural: numeral shapes d, dd, d.d
    for nm, n, cs, val in [
        ("d", 1, "x[0] in DIG", "int(x)"),
        ("dd", 2, "x[0] in DIG and x[1] in DIG", "int(x)"),
        ("d_d", 3, 'x[0] in DIG and x[1] == "." and x[2] in DIG', "float(x)"),
    ][: 2 if quick else 3]:
        out.append(f'''
def plural_{nm}(x: str) -> bool:
    """
    pre: len(x) == {n}
    pre: {cs}
    post: _
    """
    want = "S" if (x == "1" or x == "01" or x == "1.0") else "P"
    return P.PARSER_FUNCTIONS["plural"](ctx, "plural", [x, "S", "P"], ident) == want


def replay_plural_{nm}(x):
    return via_expand_plural(x, "S" if {val} == 1 else "P")
''')
    return "\n".join(out), tr, nfiles


def run(rep: C.Report) -> None:
    quick = C.tier() == "quick"
    rep.explanation = "CrossHair executes the real parser functions (looked up in the live PARSER_FUNCTIONS table) on symbolic strings and compares with reference definitions transcribed from the MediaWiki manuals; integer arguments are enumerated by the generator (one condition per value), strings stay symbolic. Counterexamples are replayed through Wtp.expand('{{fn:...}}')."
    rep.trusted += ["CrossHair 0.0.110", "z3", "refs/strfuncs.py (reference definitions)"]
    # recorded finding (not repaired: the existing test-suite pins this behaviour): concrete probe through expand()
    try:
        gen0, _ = xh.prepare(H)
        mod = xh.load(gen0)
        got = mod.via_expand("#titleparts", "a/b/c", "1", "2")
        if got != "b":
            rep.violation("expand('{{#titleparts:a/b/c|1|2}}')", f"#titleparts returns {got!r}; MediaWiki's definition (first segment is 1-based, ':' is not a segment separator) gives 'b'", {"doc": "{{#titleparts:a/b/c|1|2}}"})
    except Exception as e:  # noqa: BLE001
        rep.extra["known_probe_error"] = f"{type(e).__name__}: {e}"
    rep.assumptions.append("#titleparts: region of the recorded finding excluded (first-segment argument >= 1, ':' in the title); titles with empty segments are outside the reference's domain")
    rep.outside += ["urlencode/#urldecode (C-level urllib realises symbolic text)", "#expr precedence matrix (thorough tier only)", "strings longer than the bound, integer arguments outside the enumerated range"]
    src = open(H).read() + "\n" + gen_str(quick)
    L, K = (3, 2) if quick else (5, 6)
    xh.check_harness(
        rep,
        H,
        {
            "^f_": dict(name="Ob1 string functions equal their reference definitions", functions=["parserfns.py: len_fn pos_fn rpos_fn sub_fn replace_fn explode_fn titleparts_fn padleft_fn padright_fn lc_fn uc_fn lcfirst_fn ucfirst_fn urlencode_fn urldecode_fn"], bounds=f"subject <= {L} chars over {{a,b,space,/,:}}, needle/pad <= 2 chars, integer arguments in [-{K},{K}] enumerated one condition each"),
        },
        timeout=60 if quick else 300,
        src=src,
        batch=6,
        twins=False,
    )
    pad_limit(rep)
    run_ops(rep, quick)
    run_num(rep, quick)
    expr_precedence(rep)


def pad_limit(rep: C.Report) -> None:
    """Ob1b: the pad functions limit the padded length (MediaWiki: 500).  AST fact: the count that drives the repetition is
    bounded by min(..., CONST <= 500); otherwise replay {{fn:x|501}} and a huge length."""
    import ast

    ob = rep.add(C.Ob("Ob1b padleft / padright / #pad limit the padded length to 500", "AST fact + replay", ["parserfns.py:padleft_fn", "parserfns.py:padright_fn", "parserfns.py:pad_fn"], "-"))
    try:
        tree = ast.parse(open(os.path.join(C.SRC, "parserfns.py")).read())
        bad = []
        for fname in ("padleft_fn", "padright_fn", "pad_fn"):
            fn = [n for n in tree.body if isinstance(n, ast.FunctionDef) and n.name == fname]
            ob.conditions += 1
            ob.queries += 1
            ob.paths += 1
            if not fn:
                bad.append(fname + " (not found)")
                continue
            ok = False
            for n in ast.walk(fn[0]):
                if isinstance(n, ast.Assign) and any(isinstance(t, ast.Name) and t.id == "cnt" for t in n.targets):
                    for c in ast.walk(n.value):
                        if isinstance(c, ast.Call) and isinstance(c.func, ast.Name) and c.func.id == "min" and any(isinstance(a, ast.Constant) and isinstance(a.value, int) and a.value <= 500 for a in c.args) and any(isinstance(x, ast.Call) and isinstance(x.func, ast.Name) and x.func.id == "int" for a in c.args for x in ast.walk(a)):
                            ok = True
            if ok:
                ob.confirmed_conditions += 1
            else:
                bad.append(fname)
        if not bad and not C.distrust():
            ob.verdict = C.DISCHARGED
            return
        from wikitextprocessor import Wtp

        w = Wtp(quiet=True, quiet_output=True)
        w.start_page("T")
        for name in ("padleft", "padright", "#pad"):
            for n in ("501", "99999999999"):
                doc = "{{" + name + ":x|" + n + "}}"
                try:
                    r = w.expand(doc)
                    if len(r) > 500:
                        v = rep.violation(f"expand({doc!r})", f"result has {len(r)} characters; the documented limit is 500", {"doc": doc})
                        ob.verdict = C.VIOLATED if v.known is None else C.KNOWN
                        return
                except BaseException as e:  # noqa: BLE001 - MemoryError is not an Exception subclass issue; report it
                    v = rep.violation(f"expand({doc!r})", f"raises {type(e).__name__}", {"doc": doc})
                    ob.verdict = C.VIOLATED if v.known is None else C.KNOWN
                    return
        ob.detail = f"no min(int(...), <=500) bound found in {bad}, but the replays stay within 500 characters -> inconclusive"
    except Exception as e:  # noqa: BLE001
        ob.detail += f"{type(e).__name__}: {e}"


# documented precedence of #expr (Help:Calculation / ParserFunctions Expr.php), tightest first
DOC_LEVELS = [
    ("unary", ["+", "-"]),  # unary sign (prefix)
    ("e", ["e"]),
    ("functions", ["not", "ceil", "trunc", "floor", "abs", "exp", "ln", "sin", "cos", "tan", "acos", "asin", "atan", "sqrt"]),
    ("pow", ["^"]),
    ("mul", ["*", "/", "div", "mod"]),
    ("add", ["+", "-"]),
    ("round", ["round"]),
    ("cmp", ["=", "!=", "<>", ">", "<", ">=", "<="]),
    ("and", ["and"]),
    ("or", ["or"]),
]


def expr_ladder():
    """The precedence ladder of expr_fn read from the current AST: a list (outermost first) of
    (parser name, next-tighter parser name, table variable or None)."""
    import ast

    tree = ast.parse(open(os.path.join(C.SRC, "parserfns.py")).read())
    fn = [n for n in ast.walk(tree) if isinstance(n, ast.FunctionDef) and n.name == "expr_fn"]
    if len(fn) != 1:
        return None
    defs = {n.name: n for n in fn[0].body if isinstance(n, ast.FunctionDef)}
    edges = {}
    for name, d in defs.items():
        for c in ast.walk(d):
            if isinstance(c, ast.Call) and isinstance(c.func, ast.Name) and c.func.id == "generic_binary" and len(c.args) >= 3 and isinstance(c.args[1], ast.Name) and isinstance(c.args[2], ast.Name):
                edges[name] = (c.args[1].id, c.args[2].id)
    # parse_expr -> first level
    start = None
    for c in ast.walk(defs.get("parse_expr", ast.Pass())):
        if isinstance(c, ast.Call) and isinstance(c.func, ast.Name) and c.func.id in defs:
            start = c.func.id
    chain = []
    cur = start
    seen = set()
    while cur is not None and cur not in seen:
        seen.add(cur)
        if cur in edges:
            nxt, table = edges[cur]
            chain.append((cur, nxt, table))
            cur = nxt
            continue
        # a level that is not a generic binary level (prefix functions, unary sign): follow it to the next binary level
        nxt = None
        for c in ast.walk(defs.get(cur, ast.Pass())):
            if isinstance(c, ast.Call) and isinstance(c.func, ast.Name) and c.func.id in edges and c.func.id not in seen:
                nxt = c.func.id
                break
        cur = nxt
    return chain


def expr_precedence(rep: C.Report) -> None:
    """Ob4: the binary-operator ladder of expr_fn realises the documented precedence order.  z3 decides, over the operator
    tables read from the live module and the ladder read from the AST, whether some pair of binary operators is ordered
    differently from the documentation (finite domain: degenerate use of the solver, said openly); a sat pair is replayed
    through expand() with operand triples until the implementation and the documented parenthesisation differ."""
    import itertools

    import z3

    ob = rep.add(C.Ob("Ob4 #expr binary-operator ladder realises the documented precedence", "AST + z3 (finite) + replay", ["parserfns.py:expr_fn precedence ladder", "parserfns.py:binary_*_fns tables"], "all ordered pairs of documented binary operators"))
    try:
        import wikitextprocessor.parserfns as P

        chain = expr_ladder()
        if not chain:
            ob.verdict, ob.detail = C.NOT_ENCODABLE, "precedence ladder not found in expr_fn"
            return
        impl_level = {}  # operator -> depth (larger = binds tighter)
        for depth, (parser, nxt, table) in enumerate(chain):
            tab = getattr(P, table, None)
            if not isinstance(tab, dict):
                continue
            for op in tab:
                impl_level.setdefault(op, depth)
        doc_level = {}
        for i, (lvl, ops) in enumerate(DOC_LEVELS):
            if lvl in ("unary", "functions"):
                continue
            for op in ops:
                doc_level[op] = len(DOC_LEVELS) - i  # larger = binds tighter
        ops = sorted(doc_level)
        missing = [o for o in ops if o not in impl_level]
        I = z3.Function("impl", z3.IntSort(), z3.IntSort())
        D = z3.Function("doc", z3.IntSort(), z3.IntSort())
        s = z3.Solver()
        known = [o for o in ops if o in impl_level]
        for k, o in enumerate(known):
            s.add(I(k) == impl_level[o], D(k) == doc_level[o])
        a, b = z3.Ints("a b")
        s.add(a >= 0, a < len(known), b >= 0, b < len(known))
        # documented: a binds tighter than b (or equal) but the ladder orders them differently
        s.add(z3.Or(z3.And(D(a) > D(b), I(a) <= I(b)), z3.And(D(a) == D(b), I(a) != I(b))))
        ob.conditions = 1
        bad_pairs = []
        while True:
            r = str(s.check())
            ob.queries += 1
            ob.paths += 1
            if r != "sat":
                break
            m = s.model()
            ia, ib = m[a].as_long(), m[b].as_long()
            bad_pairs.append((known[ia], known[ib]))
            s.add(z3.Not(z3.And(a == ia, b == ib)))
            if len(bad_pairs) > 40:
                break
        ob.samples.append({"ladder": [(p, t) for p, _, t in chain], "operators_missing_from_tables": missing, "misordered_pairs": bad_pairs[:10]})
        if not bad_pairs and not missing and not C.distrust():
            ob.verdict = C.DISCHARGED
            ob.confirmed_conditions = 1
            return
        # replay
        from wikitextprocessor import Wtp

        w = Wtp(quiet=True, quiet_output=True)
        w.start_page("T")

        def ev(e):
            return w.expand("{{#expr:" + e + "}}")

        hit = None
        for o1, o2 in bad_pairs:
            tight, loose = (o1, o2)  # documented: o1 at least as tight as o2
            for x, y, z in itertools.product([0, 1, 2, 3, 5, 7], repeat=3):
                for expr, ref in ((f"{x} {loose} {y} {tight} {z}", f"{x} {loose} ({y} {tight} {z})"), (f"{x} {tight} {y} {loose} {z}", f"({x} {tight} {y}) {loose} {z}")):
                    if doc_level[tight] == doc_level[loose]:
                        ref = f"({x} {o1} {y}) {o2} {z}" if expr.startswith(f"{x} {o1}") else f"({x} {o2} {y}) {o1} {z}"
                    try:
                        g, wv = ev(expr), ev(ref)
                    except Exception as e:  # noqa: BLE001
                        continue
                    if g != wv and "error" not in wv and "Divide" not in wv:
                        hit = (expr, g, ref, wv)
                        break
                if hit:
                    break
            if hit:
                break
        if missing and not hit:
            for o in missing:
                g = ev(f"5 {o} 2")
                if "error" in g.lower():
                    hit = (f"5 {o} 2", g, "(documented operator)", "a value")
                    break
        if hit:
            v = rep.violation("expand(" + repr("{{#expr:" + hit[0] + "}}") + ")", f"result {hit[1]!r}; the documented precedence reads it as {hit[2]!r} = {hit[3]!r}", {"doc": "{{#expr:" + hit[0] + "}}"})
            ob.verdict = C.VIOLATED if v.known is None else C.KNOWN
            ob.confirmed_conditions = 1
        else:
            ob.detail = f"ladder orders {bad_pairs[:4]} differently from the documentation but no operand triple shows a different value -> inconclusive"
    except Exception as e:  # noqa: BLE001
        ob.detail += f"{type(e).__name__}: {e}"


OPS_CONDS = '''
def opv_arith(x: int, y: int) -> bool:
    """
    pre: ALL_OPS and -12 <= x <= 12 and -12 <= y <= 12
    post: _
    """
    return (
        same_num(op("binary_mul_fns", "*")(x, y), x * y)
        and same_num(op("binary_add_fns", "+")(x, y), x + y)
        and same_num(op("binary_add_fns", "-")(x, y), x - y)
        and same_num(op("unary_fns", "-")(x), -x)
        and same_num(op("unary_fns", "abs")(x), x if x >= 0 else -x)
        and same_num(op("unary_fns", "not")(x), 1 if x == 0 else 0)
    )


def opv_cmp(x: int, y: int) -> bool:
    """
    pre: ALL_OPS and -3 <= x <= 3 and -3 <= y <= 3
    post: _
    """
    t = lambda n: op("binary", n)  # noqa: E731
    return (
        t("=")(x, y) == (1 if x == y else 0)
        and t("!=")(x, y) == (1 if x != y else 0)
        and t("<>")(x, y) == (1 if x != y else 0)
        and t("<")(x, y) == (1 if x < y else 0)
        and t(">")(x, y) == (1 if x > y else 0)
        and t("<=")(x, y) == (1 if x <= y else 0)
        and t(">=")(x, y) == (1 if x >= y else 0)
        and t("and")(x, y) == (1 if (x != 0 and y != 0) else 0)
        and t("or")(x, y) == (1 if (x != 0 or y != 0) else 0)
    )


def _rp_op(expr, want):
    from wikitextprocessor import Wtp

    w = Wtp(quiet=True, quiet_output=True)
    w.start_page("T")
    got = w.expand("{{#expr:" + expr + "}}")
    bad = ("rror" not in got and "zero" not in got) if want == "ERR" else (got != str(want))
    return ("expand(" + repr("{{#expr:" + expr + "}}") + ")", bad, f"result {got!r}, the documented value is {want!r}")


'''


def gen_ops(quick: bool) -> str:
    """second operand (divisor / digit count) enumerated by the generator: a symbolic divisor makes the queries non-linear"""
    out = []
    Y = range(-4, 5) if quick else range(-9, 10)
    for y in Y:
        t = f"m{-y}" if y < 0 else str(y)
        out.append(f'''
def opv_mod_{t}(x: int) -> bool:
    """
    pre: -15 <= x <= 15
    post: _
    """
    got = op("binary_mul_fns", "mod")(x, {y})
    want = ref_mod(x, {y})
    return is_err(got) if want == "ERR" else same_num(got, want)


def replay_opv_mod_{t}(x):
    return _rp_op(f"{{x}} mod {y}", ref_mod(x, {y}))


def opv_modf_{t}(x: int) -> bool:
    """
    pre: -15 <= x <= 15
    post: _
    """
    # a fractional divisor is truncated first
    yv = {y} + (0.5 if {y} >= 0 else -0.5)
    got = op("binary_mul_fns", "mod")(x, yv)
    want = ref_mod(x, yv)
    return is_err(got) if want == "ERR" else same_num(got, want)


def replay_opv_modf_{t}(x):
    yv = {y} + (0.5 if {y} >= 0 else -0.5)
    return _rp_op(f"{{x}} mod {{yv}}", ref_mod(x, yv))


def opv_div_{t}(x: int) -> bool:
    """
    pre: -15 <= x <= 15
    post: _
    """
    for name in ("/", "div"):
        got = op("binary_mul_fns", name)(x, {y})
        if {y} == 0:
            if not is_err(got):
                return False
        elif is_err(got) or got * {y} != x:
            return False
    return True
''')
    for d in range(-2, 3):
        t = f"m{-d}" if d < 0 else str(d)
        out.append(f'''
def opv_round_{t}(x: int) -> bool:
    """
    pre: -{25 * 10 ** max(0, -d - 1)} <= x <= {25 * 10 ** max(0, -d - 1)} and x % {10 ** max(0, -d - 1)} == 0
    post: _
    """
    return same_num(op("binary_round_fns", "round")(x, {d}), ref_round_int(x, {d}))


def replay_opv_round_{t}(x):
    return _rp_op(f"{{x}} round {d}", ref_round_int(x, {d}))
''')
    for k in range(-9, 10):
        t = f"m{-k}" if k < 0 else str(k)
        out.append(f'''
def opv_half_{t}(d: int) -> bool:
    """
    pre: d == 0
    post: _
    """
    return same_num(op("binary_round_fns", "round")({k} / 2, d), ref_round_half({k}))


def replay_opv_half_{t}(d):
    return _rp_op("{k / 2} round 0", ref_round_half({k}))
''')
    return "\n".join(out)


def run_ops(rep: C.Report, quick: bool) -> None:
    src = open(HOPS).read() + "\n" + OPS_CONDS + "\n" + gen_ops(quick)
    xh.check_harness(
        rep,
        HOPS,
        {"^opv_(mod|modf|arith|cmp|half)": dict(name="Ob5a #expr integer-valued operators compute the documented values (mod, arithmetic, comparison, logic, rounding of halves)", functions=["parserfns.py: binary_mul_fns, binary_add_fns, binary_cmp_fns, binary_and_fns, binary_or_fns, binary_round_fns, unary_fns"], bounds="first operand symbolic in [-15,15] ([-12,12]^2 for arithmetic, [-3,3]^2 for comparison/logic), divisor enumerated (-4..4, thorough -9..9) also with a .5 fraction; halves k/2 for |k| <= 9")},
        timeout=60 if quick else 300,
        src=src,
        batch=6,
        twins=False,
        select="^opv_(mod|modf|arith|cmp|half)",
    )
    # operators with real-valued results: CrossHair models floats as reals and does not exhaust these conditions (measured:
    # > 1000 paths without verdict); they are kept as bug hunting with a short budget - on the pinned tree they produced
    # '5 round -1' and '0.5 round 0' within a second
    xh.check_harness(
        rep,
        HOPS,
        {"^opv_(div|round)": dict(name="Ob5b #expr division and round (real-valued; explored, not exhausted)", functions=["parserfns.py: binary_mul_fns['/'], ['div'], binary_round_fn"], bounds="first operand symbolic in [-15,15] (round: 51 multiples of the unit below the rounding position), second operand enumerated")},
        timeout=12 if quick else 120,
        src=src,
        batch=7,
        twins=False,
        explore_only=True,
        select="^opv_(div|round)",
    )


def run_num(rep: C.Report, quick: bool) -> None:
    body, tr, nfiles = gen_num(quick)
    src = open(HN).read() + "\n" + body
    rep.extra["locale_files_read"] = nfiles
    rep.extra["locale_triples"] = [{"decimal": k[0], "separator": k[1], "grouping": list(k[2]), "languages": v} for k, v in sorted(tr.items())]
    rep.assumptions.append("builtin set() inside parserfns is stubbed by a character-set wrapper with the same `<=` semantics (hashing would realise the symbolic digits)")
    xh.check_harness(
        rep,
        HN,
        {
            "^fmt_": dict(name="Ob2 formatnum|R inverts formatnum for every shipped locale", functions=["parserfns.py:formatnum_fn", "parserfns.py:_formatnum_reverse"], bounds=f"{nfiles} locale files = {len(tr)} distinct (decimal, separator, grouping) triples; numerals with symbolic digits, integer part up to {7 if quick else 12} digits, fraction up to {2 if quick else 3}"),
            "^plural_": dict(name="Ob3 plural selects the singular exactly for the value 1", functions=["parserfns.py:plural_fn", "parserfns.py:expr_fn"], bounds="numerals d, dd, d.d with symbolic digits"),
        },
        timeout=60 if quick else 200,
        src=src,
        batch=4,
        twins=False,
    )


def replay(r: dict) -> int:
    print(r)
    return 0
