"""C01 - parse() is total and returns a well-formed tree: necessary conditions (E2 regex lemmas, E1 merge kernel)."""
from __future__ import annotations

import ast
import itertools
import os
import re

import z3

from vf import common as C
from vf import resym as R
from vf import xh

H = os.path.join(C.VERIF, "harness", "C01_merge.py")


def tagfn_patterns():
    """string literals passed to re.match(<literal>, token) inside tag_fn, from the current AST"""
    tree = ast.parse(open(os.path.join(C.SRC, "parser.py")).read())
    fn = [n for n in ast.walk(tree) if isinstance(n, ast.FunctionDef) and n.name == "tag_fn"]
    if len(fn) != 1:
        return None
    from vf import passes as PS

    consts = PS.compiled_constants(tree)  # module-level NAME = re.compile(<literal>): a refactoring may move the patterns there
    pats = []
    for c in ast.walk(fn[0]):
        if isinstance(c, ast.Call) and ast.unparse(c.func) == "re.match" and len(c.args) == 2 and ast.unparse(c.args[1]) == "token":
            a0 = c.args[0]
            if isinstance(a0, ast.Name) and a0.id in consts:
                pats.append((consts[a0.id][0], c.lineno))
                continue
            try:
                pats.append((ast.literal_eval(a0), c.lineno))
            except Exception:  # noqa: BLE001
                return None
        elif isinstance(c, ast.Call) and isinstance(c.func, ast.Attribute) and c.func.attr == "match" and isinstance(c.func.value, ast.Name) and c.func.value.id in consts and len(c.args) == 1 and ast.unparse(c.args[0]) == "token":
            pats.append((consts[c.func.value.id][0], c.lineno))
    return pats


def parse_raises(text: str):
    from wikitextprocessor import Wtp

    c = Wtp(quiet=True, quiet_output=True)
    c.start_page("T")
    try:
        r = c.parse(text)
        return None if r is not None and not c.parser_stack else "parser stack left non-empty"
    except Exception as e:  # noqa: BLE001
        return f"{type(e).__name__}: {e}"


def strip_marks(s: str) -> str:
    return s.replace(R.MARK, "")


def sat_loop(ob, name, make_constraints, rep, max_rounds=12):
    """Solve; a sat model (which may contain \\b markers) is replayed on Wtp.parse after erasing the markers; a
    non-reproducing model is blocked and the query repeated."""
    blocked = []
    for rnd in range(max_rounds):
        r, model, dt = R.solve(lambda x: make_constraints(x) + [x != z3.StringVal(b) for b in blocked], seed=C.seed())
        ob.queries += 1
        ob.paths += 1
        ob.solver_s += dt
        if r == "unsat":
            return "unsat"
        if r != "sat":
            ob.detail += f"{name}: solver {r}; "
            return "unknown"
        raw = R.z3str_to_py(model)
        t = strip_marks(raw)
        err = parse_raises(t)
        ob.samples.append({"lemma": name, "model": t, "parse": err or "returns normally"})
        if not err:
            # the model is a member of the language difference but need not be the member on which the parser trips (what
            # follows the offending character matters): try its one-character neighbours, each checked by running parse()
            for i in range(1, len(t)):
                for ins in ("%", "&", "!"):
                    for cand in (t[:i] + ins + t[i:], t[:i] + ins + t[i + 1 :]):
                        e2 = parse_raises(cand)
                        if e2:
                            t, err = cand, e2
                            ob.samples.append({"lemma": name, "neighbour_of_model": cand, "parse": e2})
                            break
                    if err:
                        break
                if err:
                    break
        if err:
            v = rep.violation("parse(" + repr(t) + ")", f"parse() raises {err}", {"doc": t})
            ob.__dict__.setdefault("_vs", []).append(v)
            return "violated"
        blocked.append(raw)
    ob.detail += f"{name}: {max_rounds} models, none reproduces through Wtp.parse -> inconclusive; "
    return "unknown"


def regex_lemmas(rep: C.Report) -> None:
    import wikitextprocessor.parser as P

    ob1 = rep.add(C.Ob("Ob1 every tag-like token the tokenizer emits is accepted by tag_fn's start or end pattern", "E2 z3 regex", [], "no length bound; \\b encoded as a marker literal on both sides"))
    ob2 = rep.add(C.Ob("Ob2 no token alternative matches the empty string", "E2 z3 regex", ["parser.py:token_list"], "every alternative of the token regex"))
    ob3 = rep.add(C.Ob("Ob3 every heading bookend the tokenizer can emit is a key of SUBTITLE_TO_KIND", "E2 z3 regex + Int", ["parser.py:header_re", "parser.py:SUBTITLE_TO_KIND"], "all repeat counts the pattern admits"))
    # ---- Ob1
    try:
        pats = tagfn_patterns()
        toks = [t for t in P.token_list if t.startswith("<") and not t.startswith("<<")]
        if not pats or len(pats) < 2 or len(toks) < 2:
            ob1.verdict, ob1.detail = C.NOT_ENCODABLE, f"tag_fn literals={pats and len(pats)} tokenizer tag alternatives={len(toks)}"
        else:
            ob1.functions = [f"parser.py:tag_fn re.match literal @{ln}" for _, ln in pats] + [f"parser.py:token_list {t[:25]!r}..." for t in toks]
            samples = ["<a>", "</a>", "<a b=c>", "<a b='c' d=\"e\"/>", "<a\nb>", "</a >", "<1>", "<a b=c d>", "<a =>", "<a b=>", "<-_>", "</-_>", "<a b = c>", "< a>", "<a b=c\xa0%>", "<a:b>"]
            bad = R.validate([(p, 0) for p, _ in pats] + [(t, 0) for t in toks], samples)
            if bad:
                ob1.detail = "translator self-check failed: " + "; ".join(bad[:3])
            else:
                A = z3.Union(*[R.to_z3(t) for t in toks])
                B = z3.Union(*[R.match_lang(p) for p, _ in pats])
                ob1.conditions = 1
                # first look for a witness whose tag name is an allowed HTML tag (tag_fn handles unknown names as text
                # before it matches, so only such a witness can make parse() raise), then without that restriction
                named = z3.Concat(z3.Re("<"), z3.Option(z3.Re("/")), z3.Union(z3.Re("span"), z3.Re("td"), z3.Re("div"), z3.Re("b")), z3.Option(z3.Concat(R._neg(R._in_word()), R.ANYSTAR)))
                res = sat_loop(ob1, "tokenizer tag tokens within tag_fn patterns (allowed tag names)", lambda x: [z3.InRe(x, A), z3.Not(z3.InRe(x, B)), z3.InRe(x, R.well_placed_marks()), z3.InRe(x, named)], rep, max_rounds=6)
                if res == "unsat":
                    res = sat_loop(ob1, "tokenizer tag tokens within tag_fn patterns", lambda x: [z3.InRe(x, A), z3.Not(z3.InRe(x, B)), z3.InRe(x, R.well_placed_marks())], rep)
                # after the inside-tag rewrite (newlines removed, quotes round-tripped) the same tokenizer pattern applies
                if res == "unsat":
                    ob1.confirmed_conditions = 1
                    ob1.verdict = C.DISCHARGED
                elif res == "violated":
                    vs = ob1.__dict__["_vs"]
                    ob1.confirmed_conditions = 1
                    ob1.verdict = C.VIOLATED if any(v.known is None for v in vs) else C.KNOWN
    except R.Unsupported as e:
        ob1.verdict, ob1.detail = C.NOT_ENCODABLE, str(e)
    except Exception as e:  # noqa: BLE001
        ob1.detail += f"{type(e).__name__}: {e}"
    # ---- Ob2
    try:
        ok = True
        for alt in P.token_list:
            ob2.conditions += 1
            try:
                L = R.to_z3(alt)
            except R.Unsupported as e:
                ob2.detail += f"{alt[:20]!r}: {e}; "
                ok = False
                continue
            s = z3.Solver()
            s.add(z3.InRe(z3.StringVal(""), L))
            r = str(s.check())
            ob2.queries += 1
            ob2.paths += 1
            if r == "unsat":
                ob2.confirmed_conditions += 1
            else:
                ok = False
                err = None
                # an empty-matching alternative makes finditer yield empty tokens: replay on texts hitting it
                for t in ["x", "a b", " ", "<", "|", "\n"]:
                    err = parse_raises(t)
                    if err:
                        v = rep.violation("parse(" + repr(t) + ")", f"parse() raises {err} (token alternative {alt!r} matches the empty string)", {"doc": t})
                        ob2.__dict__.setdefault("_vs", []).append(v)
                        break
                if not err:
                    ob2.detail += f"alternative {alt!r} matches '' but no replay text raises; "
        vs = ob2.__dict__.get("_vs", [])
        if vs:
            ob2.verdict = C.VIOLATED if any(v.known is None for v in vs) else C.KNOWN
        elif ok:
            ob2.verdict = C.DISCHARGED
            ob2.samples.append({"alternatives": len(P.token_list), "query": '"" in L(alt)', "result": "unsat for all"})
    except Exception as e:  # noqa: BLE001
        ob2.detail += f"{type(e).__name__}: {e}"
    # ---- Ob3
    try:
        import re._parser as sp
        import re._constants as K

        tree = sp.parse(P.header_re.pattern)
        groups = {}
        for op, av in tree:
            if op == K.SUBPATTERN and av[0] in (1, 4):
                inner = av[3]
                if len(inner) == 1 and inner[0][0] in (K.MAX_REPEAT, K.MIN_REPEAT) and list(inner[0][1][2]) == [(K.LITERAL, ord("="))]:
                    groups[av[0]] = (inner[0][1][0], inner[0][1][1])
        if set(groups) != {1, 4}:
            ob3.verdict, ob3.detail = C.NOT_ENCODABLE, f"header_re groups 1/4 are not '=' repeats: {groups}"
        else:
            n1, n4 = z3.Int("n1"), z3.Int("n4")
            keys = sorted(len(k) for k in P.SUBTITLE_TO_KIND if set(k) == {"="})
            s = z3.Solver()
            s.add(n1 >= groups[1][0], n4 >= groups[4][0])
            if groups[1][1] != K.MAXREPEAT:
                s.add(n1 <= int(groups[1][1]))
            if groups[4][1] != K.MAXREPEAT:
                s.add(n4 <= int(groups[4][1]))
            m = z3.If(n1 < n4, n1, n4)  # token_iter shortens the longer bookend
            s.add(z3.And(*[m != k for k in keys]))
            r = str(s.check())
            ob3.queries = ob3.paths = ob3.conditions = 1
            if r == "unsat":
                ob3.verdict = C.DISCHARGED
                ob3.confirmed_conditions = 1
                ob3.samples.append({"repeat_bounds": groups, "table_key_lengths": keys, "result": "unsat"})
            else:
                a, b = s.model().eval(n1, True).as_long(), s.model().eval(n4, True).as_long()
                doc = "=" * a + " x " + "=" * b + "\n"
                err = parse_raises(doc)
                ob3.samples.append({"model": (a, b), "doc": doc, "parse": err or "returns"})
                if err:
                    v = rep.violation("parse(" + repr(doc) + ")", f"parse() raises {err}", {"doc": doc})
                    ob3.verdict = C.VIOLATED if v.known is None else C.KNOWN
                else:
                    ob3.detail = f"bookend length {min(a, b)} is not a table key but parse({doc!r}) returns -> inconclusive"
    except Exception as e:  # noqa: BLE001
        ob3.detail += f"{type(e).__name__}: {e}"


def gen_merge(quick: bool) -> str:
    out = []
    # skeleton: which children are nodes (N) and which strings (S); string contents symbolic.
    # quick: 3 children x <=1 char; thorough: 3 children x <=2 chars and 4 children x <=1 char
    skels = [(sk, 1) for sk in itertools.product("SN", repeat=3)] if quick else [(sk, 2) for sk in itertools.product("SN", repeat=3)] + [(sk, 1) for sk in itertools.product("SN", repeat=4)]
    for sk, slen in skels:
        if "S" not in sk:
            continue
        n = len(sk)
        ss = [f"s{i}" for i, k in enumerate(sk) if k == "S"]
        params = ", ".join(f"{x}: str" for x in ss)
        pre = " and ".join(f"len({x}) <= {slen} and all(c in CH for c in {x})" for x in ss)
        kids = "[" + ", ".join((f"s{i}" if k == "S" else "None") for i, k in enumerate(sk)) + "]"
        tag = "".join(sk) + f"_{slen}"
        out.append(f'''
def merge_{tag}({params}) -> bool:
    """
    pre: {pre}
    post: _
    """
    return merged_ok({kids})


def replay_merge_{tag}({", ".join(ss)}):
    return replay_kids({kids})
''')
    for ki in range(4):
        for in_cell in (False, True):
            out.append(f'''
def magic_{ki}_{int(in_cell)}(a1: int, a2: int, a3: int, outer_italic: bool) -> bool:
    """
    pre: 0 <= a1 < len(ARG_CHOICES) and 0 <= a2 < len(ARG_CHOICES) and 0 <= a3 < {1 if quick else 4}
    post: _
    """
    return magic_step({ki}, a1, a2, a3, {in_cell}, outer_italic)


def replay_magic_{ki}_{int(in_cell)}(a1, a2, a3, outer_italic):
    return replay_magic_step({ki}, a1, a2, a3, {in_cell}, outer_italic)
''')
    for nk in (2, 3):
        ps = [f"s{i}" for i in range(nk)]
        pre_u = " and ".join(f"len({x}) == 1 and {x}[0] in ACH" for x in ps)
        out.append(f'''
def url_{nk}({", ".join(x + ": str" for x in ps)}) -> bool:
    """
    pre: {pre_u}
    post: _
    """
    return url_args_ok([{", ".join(ps)}])


def replay_url_{nk}({", ".join(ps)}):
    return replay_url([{", ".join(ps)}])
''')
    for L in range(0, 3 if quick else 4):
        pre = " and ".join([f"len(v) == {L}"] + [f"v[{i}] in ACH" for i in range(L)])
        out.append(f'''
def attrs_{L}(v: str, table_row: bool) -> bool:
    """
    pre: {pre}
    post: _
    """
    return attrs_clean(v, table_row)


def replay_attrs_{L}(v, table_row):
    return replay_attrs(v, table_row)
''')
    for l1, l2 in ((1, 0), (2, 0), (1, 1)) if quick else ((1, 0), (2, 0), (1, 1), (2, 1), (1, 2), (3, 0)):
        pre2 = f"len(tok2) == {l2}" + "".join(f' and tok2[{i}] in "as \'"' for i in range(l2))
        out.append(f'''
def trail_{l1}_{l2}(has_trail: bool, tok: str, tok2: str) -> bool:
    """
    pre: len(tok) == {l1}{"".join(f' and tok[{i}] in "as !"' for i in range(l1))}
    pre: {pre2}
    post: _
    """
    return link_trail_step(has_trail, tok, tok2)


def replay_trail_{l1}_{l2}(has_trail, tok, tok2):
    return replay_link_trail(has_trail, tok, tok2)
''')
    out.append('''
def hdrarg_all(kind_i: int, ai: int, level: int, italic: bool) -> bool:
    """
    pre: 0 <= kind_i < 4 and 0 <= ai < len(HDR_ARGS) and 1 <= level <= 6
    pre: kind_i != 3 or ai in (0, 2, 3)
    post: _
    """
    return hdrarg_step(kind_i, ai, level, italic)


def replay_hdrarg_all(kind_i, ai, level, italic):
    return replay_hdrarg(kind_i, ai, level, italic)


def towt_all(ki: int, ti: int, has_children: bool, has_attrs: bool) -> bool:
    """
    pre: 0 <= ki < len(TW_KINDS) and 0 <= ti < len(TW_TAGS)
    post: _
    """
    return towt_total(ki, ti, has_children, has_attrs)


def replay_towt_all(ki, ti, has_children, has_attrs):
    return replay_towt(ki, ti, has_children, has_attrs)


def tokq_all(level: int, q: str, v: str) -> bool:
    """
    pre: 0 <= level <= 3
    pre: len(q) == 1 and q[0] in "'" + chr(34)
    pre: len(v) == 1 and v[0] in "ab "
    post: _
    """
    return tokens_unmasked(level, q, v)


def replay_tokq_all(level, q, v):
    return replay_tokens_unmasked(level, q, v)
''')
    return "\n".join(out)


def run(rep: C.Report) -> None:
    quick = C.tier() == "quick"
    rep.explanation = (
        "Necessary conditions for parse() being total, decided where two independently written pieces of syntax knowledge must agree: z3's sequence theory shows, without a length bound, that "
        "every tag-like token the tokenizer can emit is accepted by one of tag_fn's own patterns (otherwise tag_fn raises), that no token alternative matches the empty string (process_text "
        "indexes token[-1]) and that every heading bookend is a key of the level table. CrossHair confirms that _parser_merge_str_children establishes the string-children invariant for symbolic children lists."
    )
    rep.assumptions += ["\\b is encoded as a marker literal on both sides of the inclusion; models are replayed on the real parser after erasing the markers", "Unicode digits/word characters beyond ASCII are not modelled in \\d/\\w (the patterns involved use explicit ASCII classes)"]
    rep.outside += ["well-formedness of whole documents (placement rules, argument shapes)", "every raise site of the parser other than the three encoded ones", "a mutant that drops a merge call is not detected"]
    rep.trusted += ["z3 sequence theory", "vf/resym.py (self-checked against re each run)", "CrossHair 0.0.110"]
    regex_lemmas(rep)
    src = open(H).read() + "\n" + gen_merge(quick)
    xh.check_harness(
        rep,
        H,
        {"^hdrarg_": dict(name="Ob12 a heading keeps its title argument whatever saved construct the title holds (documented shape of LEVELn nodes), line breaks inside the construct included", functions=["parser.py:subtitle_start_fn", "parser.py:subtitle_end_fn", "parser.py:process_text", "parser.py:magic_fn"], bounds="4 construct kinds x 6 argument texts (plain, one / two line breaks, formatting, blank) x levels 1..6 x optionally inside italics (symbolic indices); an external link takes the single-line arguments only (it cannot span lines)"),
         "^towt_": dict(name="Ob11 to_wikitext(), which parse() applies to the nodes in the attribute region of a table / row, is total (no exception out of parse())", functions=["node_expand.py:to_wikitext", "parser.py:check_for_attributes"], bounds="every node kind x 6 tags for HTML nodes (allowed paired and void tags, the stray end tag </hl>, an extension tag known only to the context) x with/without children x with/without attributes, documented argument shapes (symbolic indices: solver-driven case split)"),
         "^tokq_": dict(name="Ob10 the tokenizer's quote mask never leaves token_iter (plain lines and heading titles)", functions=["parser.py:token_iter"], bounds="line with a tag carrying two quoted attributes, plain or as the title of a heading of level 1..3; quote character and one value character symbolic"),
         "^trail_": dict(name="Ob8 text arriving after a closed link: the link keeps at most one (trail) string, nothing is lost or reordered", functions=["parser.py:text_fn (link trail)"], bounds="link with or without a trail; one token of 1..2 (thorough 3) or two tokens of 1..2 symbolic characters over {a,s,space,!,'}"),
         "^magic_": dict(name="Ob7 re-parsing the arguments of a saved template / parameter reference / link / external link leaves nothing open that it opened and never pops ROOT (no exception)", functions=["parser.py:magic_fn", "parser.py:_parser_pop", "parser.py:process_text"], bounds="4 construct kinds x {top level, table cell} x optional open italic x 2 (thorough 3) arguments each drawn from 10 argument texts with open/close formatting, rule and list lines (symbolic indices: solver-driven case split)"),
         "^url_": dict(name="Ob6 the URL part of an external link is merged and finalized when it becomes an argument", functions=["parser.py:text_fn (URL whitespace branch)"], bounds="2..3 string children of one symbolic char over {a, space, placeholder}"),
         "^attrs_": dict(name="Ob5 no placeholder character survives in attribute values when a node is popped", functions=["parser.py:_parser_pop"], bounds=f"attribute value of 0..{2 if quick else 3} symbolic chars over {{a, space, template placeholder, <nowiki /> placeholder}}; HTML element and table row"),
         "^merge_": dict(name="Ob4 merge kernel: no empty string, no adjacent strings, no placeholder character, nodes kept", functions=["parser.py:_parser_merge_str_children", "core.py:Wtp._finalize_expand"], bounds=f"children lists of {3 if quick else 4} entries (every node/string skeleton), strings <= {1 if quick else 2} symbolic chars over {{a, newline, nowiki-, bracket-placeholders}}")},
        timeout=60 if quick else 300,
        src=src,
        batch=2,
        twins=False,
    )
    try:
        from props.C05 import placeholder_input

        placeholder_input(rep, "C01")
    except Exception as e:  # noqa: BLE001
        rep.extra["placeholder_probe_error"] = f"{type(e).__name__}: {e}"


def replay(r: dict) -> int:
    print(r)
    return 0
