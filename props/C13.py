"""C13 - selective expansion expands exactly the selected templates and honours the hooks (partial)."""
from __future__ import annotations

import ast
import os

import z3

from vf import astpaths as AP
from vf import common as C
from vf import xh

H = os.path.join(C.VERIF, "harness", "C13_select.py")


def _name_call(n, names):
    return isinstance(n, ast.Call) and isinstance(n.func, ast.Name) and n.func.id in names


def _attr_call(n, attrs):
    return isinstance(n, ast.Call) and isinstance(n.func, ast.Attribute) and n.func.attr in attrs


SECOND_CALL = '''
def second_call(e1: bool, n1: bool, ne1: bool, nn1: bool, e2: bool, n2: bool, ne2: bool, nn2: bool, restart: bool) -> bool:
    """
    post: _
    """
    return second_call_ok(e1, n1, ne1, nn1, e2, n2, ne2, nn2, restart)

'''


def hook_paths(rep: C.Report) -> None:
    """Ob3 (E3): per template call (one iteration of expand_recurse's cookie loop):
    a) template_fn is called at most once, post_template_fn at most once;
    b) if template_fn's result is used (the `t is None` test is false) the template body is not looked up;
    c) on the 'not selected' path (check_template_need_expand false) no hook is called and the call is re-emitted;
    d) every path that looks the body up or calls template_fn emits exactly one result for the call."""
    ob = rep.add(C.Ob("Ob3 hook call sites: at most once per call, non-None template_fn result bypasses the body, every expansion is offered to post_template_fn, unselected calls are re-emitted without hooks", "E3 AST path encoder + z3", [], "all syntactic paths of one iteration of expand_recurse's cookie loop, unbounded input"))
    try:
        tree = ast.parse(open(os.path.join(C.SRC, "core.py")).read())
        fns = [f for q, f in AP.functions(tree) if q[-1] == "expand_recurse"]
        if len(fns) != 1:
            ob.verdict, ob.detail = C.NOT_ENCODABLE, f"expand_recurse found {len(fns)} times"
            return
        fn = fns[0]
        ob.functions.append(f"core.py:Wtp.expand.expand_recurse@{fn.lineno}")

        def delta(n):
            if _name_call(n, {"template_fn"}):
                return {"tf": 1}
            if _name_call(n, {"post_template_fn"}):
                return {"ptf": 1}
            if _attr_call(n, {"get_page_resolve_redirect", "get_page", "get_page_body"}):
                return {"lookup": 1}
            if _attr_call(n, {"_unexpanded_template"}):
                return {"reemit": 1}
            return None

        def branch(test, pol):
            # `t is None`
            if isinstance(test, ast.Compare) and isinstance(test.left, ast.Name) and test.left.id == "t" and len(test.ops) == 1 and isinstance(test.ops[0], ast.Is) and isinstance(test.comparators[0], ast.Constant) and test.comparators[0].value is None:
                return {"t_used": 1} if not pol else None
            # `not expand_all and not self.check_template_need_expand(...)`
            if any(_attr_call(c, {"check_template_need_expand"}) for c in ast.walk(test)):
                return {"unselected": 1} if pol else {"selected": 1}
            # `post_template_fn is not None [and t]`: the place where the hook is offered the expansion
            if "post_template_fn" in ast.unparse(test) and "is not None" in ast.unparse(test):
                return {"ptf_offered": 1}
            return None

        names = ["tf", "ptf", "lookup", "reemit", "t_used", "unselected", "selected", "ptf_offered"]
        enc = AP.Encoder(fn, names, delta, branch=branch).run()
        found = {k: False for k in ("tf", "ptf", "unselected")}
        bad = []
        queries = {
            "template_fn called more than once for one call": lambda d: d["tf"] > 1,
            "post_template_fn called more than once for one call": lambda d: d["ptf"] > 1,
            "template body looked up although template_fn's result is used": lambda d: z3.And(d["t_used"] >= 1, d["tf"] >= 1, d["lookup"] >= 1),
            "hook called for a call that is not selected": lambda d: z3.And(d["unselected"] >= 1, z3.Or(d["tf"] >= 1, d["ptf"] >= 1)),
            "unselected call not re-emitted exactly once": lambda d: z3.And(d["unselected"] >= 1, d["reemit"] != 1),
            "unselected call looks the body up": lambda d: z3.And(d["unselected"] >= 1, d["lookup"] >= 1),
            # every expansion - from template_fn or from the body - passes the point where post_template_fn is consulted
            "an expanded call ends without post_template_fn being offered the expansion": lambda d: z3.And(z3.Or(d["tf"] >= 1, d["lookup"] >= 1), d["reemit"] == 0, d["ptf_offered"] == 0),
        }
        for ex in enc.exits:
            if ex.base is None:
                continue
            d = {k: ex.counters[k] - ex.base[k] for k in names}
            for k in found:
                s = z3.Solver()
                s.add(ex.guard, d[k] >= 1)
                if str(s.check()) == "sat":
                    found[k] = True
            for qn, q in queries.items():
                s = z3.Solver()
                s.add(ex.guard, q(d))
                r = str(s.check())
                ob.queries += 1
                ob.paths += 1
                ob.conditions += 1
                if r == "unsat":
                    ob.confirmed_conditions += 1
                else:
                    bad.append((qn, ex.kind, ex.line))
        missing = [k for k, v in found.items() if not v]
        ob.samples.append({"queries": list(queries), "violating_paths": bad[:6], "anchors_not_found": missing})
        if missing:
            ob.verdict, ob.detail = C.NOT_ENCODABLE, f"call sites / selection test not found: {missing}"
            return
        if not bad and not C.distrust():
            ob.verdict = C.DISCHARGED
            return
        # replay through the public API with recording hooks over a small catalogue
        sig, reproduced, what = replay_hooks()
        if reproduced:
            v = rep.violation(sig, what, {"kind": "hooks"})
            ob.verdict = C.VIOLATED if v.known is None else C.KNOWN
        else:
            ob.detail = f"path query violated ({bad[:3]}) but the hook replay catalogue shows no deviation -> inconclusive"
    except Exception as e:  # noqa: BLE001
        ob.detail += f"{type(e).__name__}: {e}"


def replay_hooks():
    from wikitextprocessor import Wtp

    w = Wtp(quiet=True, quiet_output=True)
    w.add_page("Template:a", 10, "A({{{1|}}})")
    w.add_page("Template:b", 10, "B{{a|{{{1}}}}}")
    w.add_page("Template:flag", 10, "F", need_pre_expand=True)
    for doc in ["{{a|1}}", "{{b|2}}{{a}}", "{{a|{{a|x}}}}", "{{flag}}{{a}}", "{{missing}}"]:
        for kw, kwt in [({}, ""), ({"pre_expand": True}, "pre_expand=True"), ({"pre_expand": True, "templates_to_expand": {"a"}}, "pre_expand=True, templates_to_expand={'a'}"), ({"templates_to_not_expand": {"a"}, "pre_expand": True}, "pre_expand=True, templates_to_not_expand={'a'}")]:
            for mode in ("none", "marker"):
                calls, posts = [], []

                def tf(name, ht, calls=calls, mode=mode):
                    calls.append((name, dict(ht)))
                    return "<M:" + name + ">" if mode == "marker" and name == "a" else None

                def ptf(name, ht, exp, posts=posts):
                    posts.append((name, exp))
                    return None

                w.start_page("T")
                out = w.expand(doc, template_fn=tf, post_template_fn=ptf, **kw)
                # reference: count of expanded calls = number of template_fn calls; with the marker every expanded {{a}} yields the marker verbatim
                if mode == "marker":
                    n_a = sum(1 for n, _ in calls if n == "a")
                    # (in the nested document the outer marker replaces the inner one: 2 calls, 1 marker in the text)
                    want = 1 if doc == "{{a|{{a|x}}}}" and n_a == 2 else n_a
                    if out.count("<M:a>") != want:
                        return (f"expand({doc!r}, {kwt}, template_fn=<marker for a>)", True, f"template_fn returned a marker {n_a} times, the output {out!r} contains it {out.count('<M:a>')} times (expected {want})")
                if mode == "marker" and doc == "{{a|1}}" and "pre_expand" not in kw and [n for n, _ in posts] != ["a"]:
                    return (f"expand({doc!r}, template_fn=<returns a marker for a>, post_template_fn=<records>)", True, f"post_template_fn was called for {[n for n, _ in posts]}, expected ['a']: it must see the expansion template_fn supplied")
                if len(posts) > len(calls):
                    return (f"expand({doc!r}, {kwt}) with recording hooks", True, f"post_template_fn called {len(posts)} times, template_fn {len(calls)} times")
    # an unselected call inside a selected template / an enabled parser function stays a call *as text* at every stage: the
    # hooks and the enclosing parser function must see the text, not an internal placeholder
    from wikitextprocessor.common import MAGIC_FIRST

    seen = []
    w.add_page("Template:outer", 10, "A{{a|q|k=v}}B")
    w.start_page("T")
    out = w.expand("{{outer}}", pre_expand=True, templates_to_expand={"outer"}, post_template_fn=lambda n, ht, exp: seen.append(exp))
    if any(ord(ch) >= MAGIC_FIRST for e in seen for ch in e) or seen != ["A{{a|q|k=v}}B"] or out != "A{{a|q|k=v}}B":
        return ("Template:outer = 'A{{a|q|k=v}}B': expand('{{outer}}', pre_expand=True, templates_to_expand={'outer'}, post_template_fn=<records>)", True, f"post_template_fn saw {seen!r}, result {out!r}; expected the default expansion 'A{{{{a|q|k=v}}}}B' with the unselected call as text")
    w.start_page("T")
    out = w.expand("{{lc:X{{a|Q}}Y}}", pre_expand=True, templates_to_expand={"zzz"})
    if out != "x{{a|q}}y":
        return ("expand('{{lc:X{{a|Q}}Y}}', pre_expand=True, templates_to_expand={'zzz'})", True, f"result {out!r}: the unselected call inside the parser function's argument must stay a call (expected 'x{{{{a|q}}}}y')")
    return ("hook replay catalogue", False, "")


def hook_arguments(rep: C.Report) -> None:
    """Ob6: the hooks see the call's (percent-decoded) name and the FINAL argument map, and their results are used as stated.
    AST facts on expand_recurse: template_fn(<f(name)>, M) and post_template_fn(<f(name)>, M, T) where M is the map the
    argument loop of the same call fills (`M[k] = ...`) and T is the variable holding the default expansion; the value
    post_template_fn returns replaces T only when it is not None.  If a fact fails, recording hooks are replayed."""
    ob = rep.add(C.Ob("Ob6 template_fn / post_template_fn receive the call's name and final argument map; a non-None post_template_fn result replaces the expansion", "AST facts + replay", ["core.py:Wtp.expand.expand_recurse (hook call sites)"], "both hook call sites and every expansion of an argument name/value in the argument loop; recording hooks on every run: 6 calls with positional, named, duplicate, nested and zero-named arguments, under full expansion and with only the outer template selected"))
    try:
        tree = ast.parse(open(os.path.join(C.SRC, "core.py")).read())
        fns = [f for q, f in AP.functions(tree) if q[-1] == "expand_recurse"]
        if len(fns) != 1:
            ob.verdict, ob.detail = C.NOT_ENCODABLE, "expand_recurse not found"
            return
        fn = fns[0]
        maps = set()
        for lp in ast.walk(fn):
            if isinstance(lp, ast.For) and "args[1:]" in ast.unparse(lp.iter):
                for st in ast.walk(lp):
                    if isinstance(st, ast.Assign) and isinstance(st.targets[0], ast.Subscript) and isinstance(st.targets[0].value, ast.Name):
                        maps.add(st.targets[0].value.id)
        problems = []
        # "final" argument map: inside the argument loop names and values are expanded completely, whatever the selection
        n_full = 0
        for lp in ast.walk(fn):
            if isinstance(lp, ast.For) and "args[1:]" in ast.unparse(lp.iter) and any(isinstance(st, ast.Assign) and isinstance(st.targets[0], ast.Subscript) and isinstance(st.targets[0].value, ast.Name) and st.targets[0].value.id in maps for st in ast.walk(lp)):
                for c in ast.walk(lp):
                    if _name_call(c, {"expand_recurse"}):
                        if len(c.args) == 3 and isinstance(c.args[2], ast.Constant) and c.args[2].value is True:
                            n_full += 1
                        else:
                            problems.append(f"argument name/value at core.py:{c.lineno} is expanded with mode `{ast.unparse(c.args[2]) if len(c.args) > 2 else '?'}`, not completely")
        if not n_full:
            problems.append("no complete expansion of the argument values found in the argument loop")
        tf = [c for c in ast.walk(fn) if _name_call(c, {"template_fn"})]
        ptf = [c for c in ast.walk(fn) if _name_call(c, {"post_template_fn"})]
        for c in tf:
            if not (len(c.args) == 2 and "name" in ast.unparse(c.args[0]) and isinstance(c.args[1], ast.Name) and c.args[1].id in maps):
                problems.append(f"template_fn call at core.py:{c.lineno} is not (name, argument map)")
        for c in ptf:
            if not (len(c.args) == 3 and "name" in ast.unparse(c.args[0]) and isinstance(c.args[1], ast.Name) and c.args[1].id in maps and isinstance(c.args[2], ast.Name)):
                problems.append(f"post_template_fn call at core.py:{c.lineno} is not (name, argument map, expansion)")
        if not tf or not ptf:
            problems.append("hook call sites not found")
        ob.conditions = ob.queries = ob.paths = len(tf) + len(ptf)
        ob.samples.append({"argument_maps": sorted(maps), "template_fn_calls": len(tf), "post_template_fn_calls": len(ptf), "problems": problems})
        # the recording hooks run on every check (validation of the facts against the real expander, 12 expand() calls)
        from wikitextprocessor import Wtp

        w = Wtp(quiet=True, quiet_output=True)
        w.add_page("Template:t", 10, "T[{{{1|}}}{{{k|}}}]")
        w.add_page("Template:u", 10, "U")
        for doc, want_calls, want_out in (
            ("{{t|a|k=b}}", [("t", {1: "a", "k": "b"})], "<T[ab]>"),
            ("{{t|a|1=c}}", [("t", {1: "c"})], "<T[c]>"),
            ("{{t| x |k= y }}", [("t", {1: " x ", "k": "y"})], "<T[ x y]>"),
            ("{{t|{{u}}}}", [("u", {}), ("t", {1: "<U>"})], "<T[<U>]>"),
            ("{{t|0=w|x|00=v}}", [("t", {"0": "w", 1: "x", "00": "v"})], "<T[x]>"),
            ("{{T%20x}}", [("T x", {})], "[[:Template:T%20x]]"),
        ):
            seen, post = [], []

            def tfn(n, a, seen=seen):
                seen.append((n, dict(a)))
                return None

            def pfn(n, a, e, post=post):
                post.append((n, dict(a), e))
                return "<" + e + ">" if not e.startswith("[[:") else None

            # the same under full expansion and under a selection that names only the outermost template of the document
            for kw, kwt in (({}, ""), ({"pre_expand": True, "templates_to_expand": {"t"}}, "pre_expand=True, templates_to_expand={'t'}, ")):
                if kw and doc == "{{T%20x}}":
                    continue  # a missing template is never selected
                del seen[:], post[:]
                w.start_page("T")
                out = w.expand(doc, template_fn=tfn, post_template_fn=pfn, **kw)
                if seen != want_calls or out != want_out or [(n, a) for n, a, _ in post] != want_calls:
                    v = rep.violation(f"expand({doc!r}, {kwt}template_fn=<records, returns None>, post_template_fn=<wraps the expansion in <>>)", f"template_fn saw {seen}, post_template_fn saw {[(n, a) for n, a, _ in post]}, result {out!r}; expected calls {want_calls} and result {want_out!r}", {"doc": doc})
                    ob.verdict = C.VIOLATED if v.known is None else C.KNOWN
                    return
        if not problems and not C.distrust():
            ob.verdict = C.DISCHARGED
            ob.confirmed_conditions = ob.conditions
            return
        ob.detail = f"{problems} but the recording hooks see the right names and maps -> inconclusive"
    except Exception as e:  # noqa: BLE001
        ob.detail += f"{type(e).__name__}: {e}"


def reemit_roundtrip(rep: C.Report) -> None:
    """Ob5: a call that is not expanded comes back as a call with the same name and arguments at every nesting depth.  The
    expander re-emits such calls through placeholders whose arguments may again hold placeholders, so the final substitution
    must run to a fixed point (structural fact shared with C15 Ob7); if it does not, nested unselected / switched-off calls
    are replayed: the text must come back unchanged."""
    ob = rep.add(C.Ob("Ob5 unexpanded calls are re-emitted with all their nested arguments (finalisation runs to a fixed point)", "AST fact + replay", ["core.py:Wtp._finalize_expand"], "nesting depth unbounded (loop structure); replay depth 1..6 under 3 option sets"))
    try:
        from props import C15 as P15

        fn = P15.finalize_fn()
        if fn is None:
            ob.verdict, ob.detail = C.NOT_ENCODABLE, "_finalize_expand not found"
            return
        ob.conditions = ob.queries = ob.paths = 1
        if P15.fixpoint_loop(fn) and not C.distrust():
            ob.verdict = C.DISCHARGED
            ob.confirmed_conditions = 1
            return
        from wikitextprocessor import Wtp

        w = Wtp(quiet=True, quiet_output=True)
        w.start_page("T")
        d = "z"
        for depth in range(1, 7):
            d = "{{o%d|%s}}" % (depth, d)
            for doc, kw in (("{{#if:x|%s}}" % d, dict(pre_expand=True, expand_parserfns=False, templates_to_expand=set())), (d, dict(pre_expand=True, templates_to_expand=set())), ("{{#invoke:m|f|%s}}" % d, dict(pre_expand=True, expand_invoke=False, templates_to_expand=set()))):
                out = w.expand(doc, **kw)
                if out != doc:
                    opts = ", ".join(f"{k}={v!r}" for k, v in kw.items())
                    v = rep.violation(f"expand({doc!r}, {opts})", f"nothing is selected, but the text does not come back unchanged: {out!r}", {"doc": doc})
                    ob.verdict = C.VIOLATED if v.known is None else C.KNOWN
                    ob.confirmed_conditions = 1
                    return
        ob.detail = "no fixed-point loop around the placeholder substitution, but nested unexpanded calls up to depth 6 come back unchanged -> inconclusive"
    except Exception as e:  # noqa: BLE001
        ob.detail += f"{type(e).__name__}: {e}"


def run(rep: C.Report) -> None:
    quick = C.tier() == "quick"
    rep.explanation = (
        "Selection rule: the real check_template_need_expand (page lookup stubbed by symbolic exists/flag bits, selection sets built from symbolic membership/None-ness bits) equals the documented rule on every "
        "combination (CrossHair; finite, forks). Switches: the AST-sliced expand_parserfn with expand_parserfns=False / expand_invoke=False re-emits the call text for symbolic arguments and leaves the expansion "
        "path untouched. Hooks: z3 path queries over one iteration of the expander's cookie loop (call counts, bypass of the body lookup, unselected calls)."
    )
    rep.assumptions += ["Page lookup is stubbed in the selection-rule condition", "branch conditions are uninterpreted in the path queries (a violating path is replayed with recording hooks before it is reported)"]
    rep.outside += ["'exactly the selected templates' over whole pages and the content of the argument map handed to the hooks (C14 covers the map)", "encode/finalize round trip of untouched constructs (CrossHair artefact in re callbacks, measured)"]
    rep.trusted += ["CrossHair 0.0.110", "z3", "vf/astpaths.py", "vf/slicer.py"]
    try:
        xh.check_harness(
            rep,
            H,
            {
                "^selection_rule": dict(name="Ob1 selection rule: expanded iff existing, not excluded and (selected or flagged)", functions=["core.py:Wtp.check_template_need_expand"], bounds="all combinations of page existence, need_pre_expand, None-ness and membership for both selection sets (64 cases, forks)"),
                "^second_call": dict(name="Ob4 the selection is taken per call: a second expand() on the same page is not influenced by the first call's selection", functions=["core.py:Wtp.expand", "core.py:Wtp.check_template_need_expand"], bounds="all combinations of None-ness/membership of both selection sets for both calls, with or without start_page in between (solver-driven case split, real expand on a real store)"),
                "^unexpanded_": dict(name="Ob2 expand_parserfns=False / expand_invoke=False re-emit the call and leave the path balanced", functions=["core.py:Wtp.expand.expand_recurse.expand_parserfn (AST slice)"], bounds="0..2 symbolic arguments <= 2 chars, 4 function names"),
            },
            timeout=90 if quick else 300,
            src=open(H).read() + "\n" + SECOND_CALL,
            twins=True,
            twin_timeout=20,
        )
    except Exception as e:  # noqa: BLE001
        rep.add(C.Ob("Ob1/Ob2 kernels", "E1 CrossHair", [], "", verdict=C.NOT_ENCODABLE, detail=f"{type(e).__name__}: {e}"))
    hook_paths(rep)
    reemit_roundtrip(rep)
    hook_arguments(rep)


def replay(r: dict) -> int:
    print(r)
    return 0
