"""C14 - all three views of a template call's arguments agree (E1 on sliced real code + E2 lemma)."""
from __future__ import annotations

import ast
import itertools
import os
import re
import time

import z3

from vf import common as C
from vf import resym as R
from vf import xh

H = os.path.join(C.VERIF, "harness", "C14_views.py")
KNOWN_PROBES = [["2=x", "y"], ["a\nb=x"], ["1111=1"]]


def gen_conditions(quick: bool) -> str:
    out = []
    lmax = 4 if quick else 6
    for L in range(1, lmax + 1):
        chars = " and ".join(f"s[{i}] in NE" for i in range(L))
        nb = " or ".join(f"s[{i}] in NB" for i in range(L))
        out.append(f"""
def one_pos_{L}(s: str) -> bool:
    \"\"\"
    pre: len(s) == {L}
    pre: {chars}
    pre: ({nb}) and s[{L - 1}] != "\\n"
    post: _
    \"\"\"
    return _agree([s])


def replay_one_pos_{L}(s):
    return _replay([s])
""")
    named_shapes = [(i, j) for i in range(1, lmax) for j in range(1, lmax - i)]
    if quick:
        named_shapes.append((1, 3))  # a value long enough to have an INNER character (newline inside a named value)
    for i, j in named_shapes:
        for _once in (0,):
            L = i + 1 + j
            chars = " and ".join((f"s[{k}] in NE" if k != i else f's[{k}] == "="') for k in range(L))
            nb1 = " or ".join(f"s[{k}] in NB" for k in range(i))
            nb2 = " or ".join(f"s[{k}] in NB" for k in range(i + 1, L))
            out.append(f"""
def one_named_{i}_{j}(s: str) -> bool:
    \"\"\"
    pre: len(s) == {L}
    pre: {chars}
    pre: ({nb1}) and ({nb2})
    pre: not _inner_ws_run(s[:{i}]) and not _big_numeric(s[:{i}])
    post: _
    \"\"\"
    return _agree([s])


def replay_one_named_{i}_{j}(s):
    return _replay([s])
""")
    # lists: skeleton over P (concrete positional value), A (named, symbolic alphabetic name), D (named, symbolic
    # numeric name over digits 3..9, i.e. never colliding with a position <= 3); each named argument is ONE symbolic
    # string  name + blank + "=v<i>"  with pinned positions.  Skeletons with D before P are the recorded finding's
    # region and are not generated (the concrete probe ["2=x","y"] is replayed instead).
    nmax = 2 if quick else 3
    for n in range(2, nmax + 1):
        for sk in itertools.product("PAD", repeat=n):
            if set(sk) == {"P"}:
                continue
            if any(sk[i] == "D" and "P" in sk[i + 1 :] for i in range(n)):
                continue
            npos = [i for i, k in enumerate(sk) if k != "P"]
            for lens in itertools.product([1, 2], repeat=len(npos)):
                if not quick and n == 3 and sum(lens) > len(npos):
                    continue  # 3-argument lists: one-character names only (2-character numeric names cost > 10 min per condition)
                if quick and any(sk[i] == "D" and l == 2 for i, l in zip(npos, lens)):
                    continue  # two-digit numeric names: thorough tier only (int() of two symbolic digits is slow)
                names = [f"s{i}" for i in npos]
                params = ", ".join(f"{x}: str" for x in names)
                build = "[" + ", ".join((f"s{i}" if k != "P" else f'" p{i} "') for i, k in enumerate(sk)) + "]"
                pres = []
                for i, l in zip(npos, lens):
                    alpha = '"ab"' if sk[i] == "A" else '"3456789"'
                    pres.append(f"len(s{i}) == {l + 4}")
                    pres.append(" and ".join(f"s{i}[{q}] in {alpha}" for q in range(l)))
                    pres.append(f's{i}[{l}] in BL and s{i}[{l + 1}] == "=" and s{i}[{l + 2}] == "v" and s{i}[{l + 3}] == "{i}"')
                for (i, l), (j, m) in itertools.combinations(list(zip(npos, lens)), 2):
                    if sk[i] == sk[j] and l == m:
                        pres.append("(" + " or ".join(f"s{i}[{q}] != s{j}[{q}]" for q in range(l)) + ")")
                tag = "".join(sk) + "_" + "".join(map(str, lens))
                prel = "\n".join("    pre: " + x for x in pres)
                out.append(f"""
def list_{tag}({params}) -> bool:
    \"\"\"
{prel}
    post: _
    \"\"\"
    return _agree({build})


def replay_list_{tag}({", ".join(names)}):
    return _replay({build})
""")
    return "\n".join(out)


def e2_classification(rep: C.Report) -> None:
    """Ob3: the three named/positional classification rules define the same language on the plain alphabet."""
    ob = rep.add(C.Ob("Ob3 named/positional classification agrees (language equality, unbounded length)", "E2 z3 regex", [], "all strings over the plain alphabet {a,b,1,space,newline,=} with a non-blank name, any length"))
    try:
        import wikitextprocessor.core as core
        import wikitextprocessor.luaexec as lx
        import wikitextprocessor.parser as ps

        def regex_in(path, iter_pred):
            from vf import passes as PS

            tree = ast.parse(open(path).read())
            consts = PS.compiled_constants(tree)  # patterns moved into module-level re.compile() constants
            for n in ast.walk(tree):
                if isinstance(n, ast.For) and iter_pred(n):
                    for c in ast.walk(n):
                        if isinstance(c, ast.Call) and ast.unparse(c.func) == "re.match" and isinstance(c.args[0], ast.Constant):
                            return c.args[0].value, c.lineno
                        if isinstance(c, ast.Call) and ast.unparse(c.func) == "re.match" and isinstance(c.args[0], ast.Name) and c.args[0].id in consts:
                            return consts[c.args[0].id][0], c.lineno
                        if isinstance(c, ast.Call) and isinstance(c.func, ast.Attribute) and c.func.attr == "match" and isinstance(c.func.value, ast.Name) and c.func.value.id in consts:
                            return consts[c.func.value.id][0], c.lineno
            return None, None

        p2, l2 = regex_in(core.__file__, lambda n: ast.unparse(n.iter).replace(" ", "").startswith("map(str,args[1:])"))
        p3, l3 = regex_in(lx.__file__, lambda n: ast.unparse(n.iter) == "args" and "frame_args[k]" in ast.unparse(n))
        # V1's rule: `"=" in parameter` inside template_parameters
        tp = [n for n in ast.walk(ast.parse(open(ps.__file__).read())) if isinstance(n, ast.FunctionDef) and n.name == "template_parameters"]
        v1_rule = bool(tp) and any(isinstance(c, ast.Compare) and isinstance(c.ops[0], ast.In) and isinstance(c.left, ast.Constant) and c.left.value == "=" for c in ast.walk(tp[0]))
        if not (p2 and p3 and v1_rule):
            ob.verdict = C.NOT_ENCODABLE
            ob.detail = f"anchors: core regex={bool(p2)} luaexec regex={bool(p3)} parser '=' rule={v1_rule}"
            return
        ob.functions = [f"core.py:{l2} re.match literal", f"luaexec.py:{l3} re.match literal", f"parser.py:{tp[0].lineno} '=' in parameter"]
        samples = ["", "a", "a=b", " a = b ", "=b", " =b", "a=", "a\n=b\n", "a=b\n", "[=x", "'=x", "a==b", "\n", "1=1", "a b=1 1"]
        bad = R.validate([(p2, 0), (p3, 0)], samples)
        if bad:
            ob.detail = "translator self-check failed: " + "; ".join(bad[:3])
            return
        L2, L3 = R.match_lang(p2), R.match_lang(p3)
        L1 = z3.Concat(R.ANYSTAR, z3.Re("="), R.ANYSTAR)
        ws = R._union(z3.Re(c) for c in " \n")
        body = R._union(z3.Re(c) for c in "ab1 \n")
        nonblank = z3.Concat(z3.Star(ws), R._union(z3.Re(c) for c in "ab1"), z3.Star(body), z3.Re("="), R.ANYSTAR)
        dom = z3.Intersect(R.alphabet_star("ab1 \n="), z3.Union(nonblank, z3.Star(body)))
        ok = True
        for nm, (A, B) in {"expander vs make_frame": (L2, L3), "expander vs node rule": (L2, L1)}.items():
            r, model, dt = R.solve(lambda x: [z3.InRe(x, dom), z3.Xor(z3.InRe(x, A), z3.InRe(x, B))], seed=C.seed())
            ob.queries += 1
            ob.paths += 1
            ob.conditions += 1
            ob.solver_s += dt
            if r == "unsat":
                ob.confirmed_conditions += 1
                ob.samples.append({"query": f"x in plain-domain and (x in L[{nm.split(' vs ')[0]}] xor x in L[{nm.split(' vs ')[1]}])", "result": "unsat"})
            elif r == "sat":
                s = R.z3str_to_py(model)
                import sys
                sys.path.insert(0, os.path.join(C.VERIF, "harness"))
                gen, _ = xh.prepare(H)
                mod = xh.load(gen)
                sig, bad_, what = mod._replay([s])
                ob.samples.append({"query": nm, "model": s, "replayed": bad_})
                if bad_:
                    v = rep.violation(sig, what, {"args": [s]})
                    ob.__dict__.setdefault("_vs", []).append(v)
                    ob.confirmed_conditions += 1
                else:
                    ob.detail += f"{nm}: model {s!r} does not reproduce a disagreement through the API; "
                ok = False
            else:
                ob.detail += f"{nm}: solver {r}; "
                ok = False
        vs = ob.__dict__.get("_vs", [])
        if vs:
            ob.verdict = C.VIOLATED if any(v.known is None for v in vs) else C.KNOWN
        elif ok:
            ob.verdict = C.DISCHARGED
    except R.Unsupported as e:
        ob.verdict = C.NOT_ENCODABLE
        ob.detail = f"regex not translatable: {e}"


VALIDATION_LISTS = [
    ["x"], [" x "], ["a=b"], [" a = b "], ["1=z"], ["a\n= b\n"], ["\nx"], ["x", "y", "z"], ["a=1", "b"], ["x", "a=1", "y"],
    ["0=z"], ["00=z"], ["-1=z"], ["1.5=z"], ["1e2=z"], ["x", "0=z", "y"], ["a", "x= 1 ", "0= z "], ["3=c", "a=b"], ["b=1", "a=2", "c=3"],
    ["x=\ny"], ["k=a b"], ["A=1", "a=2"], ["é=ü"], ["x", "y", "z", "w"], ["p", "q", "r", "s", "t", "u"], ["n= v", "m=w ", "l =x"],
    ["5=five", "x"], ["x", "5=five"],
]


def model_validation(rep: C.Report, mod) -> None:
    """Validation of the one modelled step (the Lua accessor's trim / key handling): the modelled third view is compared with
    the REAL Lua view (echo module through #invoke) on a fixed catalogue of argument lists, and the three real views with each
    other.  A disagreement of the real views outside the recorded regions is a violation; a disagreement between model and real
    Lua view only invalidates the model (obligation inconclusive)."""
    ob = rep.add(C.Ob("Ob0 validation of the modelled Lua accessor against the real sandbox (catalogue of argument lists)", "model validation (concrete runs of the real Lua bridge)", ["lua/_sandbox_phase2.lua:frame_args_index (real, through #invoke)", "harness view3 (model)"], f"{len(VALIDATION_LISTS)} argument lists incl. numeric-looking names 0, 00, -1, 1.5, 1e2"))
    bad_model, bad_real = [], []
    for args in VALIDATION_LISTS:
        ob.conditions += 1
        ob.paths += 1
        try:
            p1, p2, p3 = mod.api_views(args)
            m3 = mod.view3(args)
        except Exception as e:  # noqa: BLE001
            ob.detail += f"{args!r}: {type(e).__name__}: {e}; "
            continue
        known = mod._known_shift_args(args) if hasattr(mod, "_known_shift_args") else False
        if not (p1 == p2 == p3):
            if known:
                ob.confirmed_conditions += 1
                continue
            bad_real.append((args, p1, p2, p3))
        elif m3 != p3:
            bad_model.append((args, m3, p3))
        else:
            ob.confirmed_conditions += 1
    ob.samples.append({"lists": len(VALIDATION_LISTS), "real_views_disagree": [a for a, *_ in bad_real][:5], "model_differs_from_real_lua": [a for a, *_ in bad_model][:5]})
    if bad_real:
        vs = []
        for args, p1, p2, p3 in bad_real[:3]:
            vs.append(rep.violation("template call arguments " + repr(list(args)), f"the three argument views disagree: node={p1!r} template_fn={p2!r} lua={p3!r}", {"args": args}))
        ob.verdict = C.VIOLATED if any(v.known is None for v in vs) else C.KNOWN
    elif bad_model:
        ob.detail += f"model of the Lua accessor differs from the real sandbox on {bad_model[:2]} - the E1 conditions below rest on an invalid model; "
    else:
        ob.verdict = C.DISCHARGED


def run(rep: C.Report) -> None:
    quick = C.tier() == "quick"
    rep.explanation = (
        "The three argument views are taken from the current source: TemplateNode.template_parameters (called), the expander's argument loop "
        "(AST slice of core.py, expand_recurse := identity) and make_frame's list branch (AST slice of luaexec.py) followed by the Lua accessor's "
        "trim rule (re-read from _sandbox_phase2.lua, modelled as ASCII whitespace strip). CrossHair executes all three symbolically on argument "
        "strings built from skeletons (position of '=' / positional-vs-named pattern fixed per condition, all characters symbolic) and asserts equal "
        "keys, key types and values. A z3 regex lemma proves, without length bound, that the three named/positional classification rules define the "
        "same language on the property's plain alphabet. Counterexamples are replayed through parse(), expand(template_fn=...) and #invoke of an echo module."
    )
    rep.assumptions += [
        "Lua %s == ASCII whitespace; the Lua accessor applies the trim to named arguments only (pattern re-read from the Lua source each run)",
        "positional values do not end in a newline (property quantifier: leading/inner newlines)",
        "region of recorded finding excluded from the list conditions: positive-numeric named argument before a positional one (see known_findings.json); its concrete instance is replayed every run",
        "Lua replays use a stub for the absent Scribunto ustring submodule",
    ]
    rep.trusted += ["CrossHair 0.0.110", "z3 5.1.0", "vf/slicer.py", "vf/resym.py (self-checked against re on sample strings each run)"]
    rep.outside += ["argument strings longer than the bound", "values containing markup (<, >, &, quotes, brackets)", "values as seen through the real lupa bridge (only in replays)"]
    # known finding probe (concrete, through the public API)
    gen0, _ = xh.prepare(H)
    try:
        mod = xh.load(gen0)
    except Exception as e:  # the slices' anchors are gone (refactored source): nothing can be claimed
        rep.add(C.Ob("Ob0-Ob2 sliced argument views", "E1 CrossHair", [], "", verdict=C.NOT_ENCODABLE, detail=f"harness cannot be built from the current source: {type(e).__name__}: {e}"))
        e2_classification(rep)
        return
    try:
        for probe in KNOWN_PROBES:
            sig, bad, what = mod._replay(probe)
            if bad:
                rep.violation(sig, what, {"args": probe})
    except Exception as e:  # noqa: BLE001
        rep.extra["known_probe_error"] = f"{type(e).__name__}: {e}"
    model_validation(rep, mod)
    e2_classification(rep)
    try:
        src = open(H).read() + "\n" + gen_conditions(quick)
        xh.check_harness(
            rep,
            H,
            {
                "^one_": dict(name="Ob1 one argument: keys, key types, values agree in all three views", functions=["parser.py:TemplateNode.template_parameters", "core.py:Wtp.expand argument loop (slice)", "luaexec.py:make_frame list branch (slice)"], bounds=f"argument length <= {4 if quick else 5}, every position of '=', all characters symbolic over the plain alphabet"),
                "^list_": dict(name="Ob2 argument lists: numbering and key interplay agree", functions=["same three slices"], bounds=f"lists of {2 if quick else '2..3'} arguments, each positional (concrete value) or named with a symbolic name <= 2 chars over {{1,2,a,space}}; distinct names"),
            },
            timeout=100 if quick else 600,
            src=src,
        )
    except Exception as e:  # slicing failed: anchors moved
        rep.add(C.Ob("Ob1/Ob2 sliced views", "E1 CrossHair", [], "", verdict=C.NOT_ENCODABLE, detail=f"{type(e).__name__}: {e}"))


def replay(r: dict) -> int:
    gen0, _ = xh.prepare(H)
    mod = xh.load(gen0)
    rp = r["replay"]
    if "args" in rp:
        args = rp["args"]
    else:
        print("re-run harness call:", rp.get("call"))
        ok, out = xh.concrete(os.path.join(C.GEN, rp["harness"]), rp["call"])
        print(out)
        return 1 if ok else 0
    sig, bad, what = mod._replay(args)
    print(sig, what)
    return 1 if bad else 0
