"""C04 - template expansion agrees with the reference transclusion semantics (kernels)."""
from __future__ import annotations

import itertools
import os

from vf import common as C
from vf import xh

H = os.path.join(C.VERIF, "harness", "C04_kernels.py")


def gen(quick: bool) -> str:
    out = []
    # Ob1: body skeletons with symbolic holes
    HOLE = '"a \\n<>-/"'
    hl = 1
    skels = {
        "noinc": ["<noinclude>", "</noinclude>"],
        "noinc_open": ["<noinclude>"],
        "only": ["<onlyinclude>", "</onlyinclude>"],
        "inconly": ["<includeonly>", "</includeonly>"],
        "cmt": ["<!--", "-->"],
        "cmt_open": ["<!--"],
        "noinc_sp": ["<noinclude >", "</noinclude >"],
        "only2": ["<onlyinclude>", "</onlyinclude>", "<onlyinclude>", "</onlyinclude>"],
        "mix": ["<noinclude>", "</noinclude>", "<includeonly>", "</includeonly>"],
    }
    skels["NOINC"] = ["<NOINCLUDE>", "</NoInclude>"]  # tag names are case-insensitive
    skels["noinc_in_cmt"] = ["<!--", "<noinclude>", "-->"]  # a tag merely mentioned inside a comment
    if not quick:
        skels["cmt_in_noinc"] = ["<noinclude>", "<!--", "</noinclude>", "-->"]
    quick_skels = {"noinc", "noinc_open", "cmt", "cmt_open"}  # the others need > 90 s per condition (measured): thorough only
    for tag, lits in skels.items():
        if quick and tag not in quick_skels:
            continue
        if quick and tag in ("NOINC", "noinc_in_cmt"):
            # case-insensitive matching forks on every *pinned* symbolic character; here the tags are concrete text and only
            # the filler between them is a symbolic one-character string (one concatenation is affordable)
            hs = [f"h{i}" for i in range(len(lits) - 1)]
            expr = '"A" + ' + " + ".join(x for i, lit in enumerate(lits) for x in ([repr(lit)] if i == 0 else [f"h{i - 1}", repr(lit)])) + ' + "B"'
            out.append(f'''
def body_{tag}({", ".join(h + ": str" for h in hs)}) -> bool:
    """
    pre: {" and ".join(f"len({h}) == 1 and {h}[0] in {HOLE}" for h in hs)}
    post: _
    """
    return body_ok({expr})


def replay_body_{tag}({", ".join(hs)}):
    return replay_body({expr})
''')
            continue
        pos = 0
        pins, holes = [], []
        for lit in lits:
            for _ in range(hl):
                holes.append(pos)
                pos += 1
            pins.append((pos, lit))
            pos += len(lit)
        for _ in range(hl):
            holes.append(pos)
            pos += 1
        pre_p = " and ".join(f"pinned(text, {at}, {lit!r})" for at, lit in pins)
        pre_h = " and ".join(f"text[{i}] in {HOLE}" for i in holes)
        out.append(f'''
def body_{tag}(text: str) -> bool:
    """
    pre: len(text) == {pos}
    pre: {pre_p}
    pre: {pre_h}
    post: _
    """
    return body_ok(text)


def replay_body_{tag}(text):
    return replay_body(text)
''')
    # Ob2: parameter references
    for L in range(1, (3 if quick else 4) + 1):
        pre = " and ".join(f'name[{i}] in " 1a\\nb2"' for i in range(L))
        out.append(f'''
def param_{L}(name: str, has_default: bool) -> bool:
    """
    pre: len(name) == {L} and {pre}
    post: _
    """
    return param_ok(name, has_default)


def replay_param_{L}(name, has_default):
    return replay_param(name, has_default)
''')
    # Ob7: name=value passed to a template is found by {{{name}}} (numeric-looking names included)
    for L in (1, 2) if quick else (1, 2, 3):
        pre = " and ".join(f'name[{i}] in "01a "' for i in range(L)) + " and (" + " or ".join(f'name[{i}] in "01a"' for i in range(L)) + ")"
        out.append(f'''
def bind_{L}(name: str) -> bool:
    """
    pre: len(name) == {L} and {pre}
    post: _
    """
    return bind_roundtrip(name)


def replay_bind_{L}(name):
    return replay_bind(name)
''')
    # Ob3: #if / #ifeq with symbolic arguments, #switch over case skeletons
    out.append('''
def fn_if(a: str, b: str, c: str, n: int) -> bool:
    """
    pre: 0 <= n <= 3 and len(a) <= 2 and len(b) <= 2 and len(c) <= 2
    pre: all(ch in "a \\n" for ch in a) and all(ch in "b \\n" for ch in b) and all(ch in "c \\n" for ch in c)
    post: _
    """
    args = [a, b, c][:n]
    return call("#if", args) == r_if(args)


def replay_fn_if(a, b, c, n):
    args = [a, b, c][:n]
    return replay_fn("#if", args, r_if(args))


def fn_ifeq(a: str, b: str, n: int) -> bool:
    """
    pre: 0 <= n <= 4 and len(a) <= 2 and len(b) <= 2
    pre: all(ch in "ab \\n" for ch in a) and all(ch in "ab \\n" for ch in b)
    post: _
    """
    args = [a, b, " y ", "n "][:n]
    return call("#ifeq", args) == r_ifeq(args)


def replay_fn_ifeq(a, b, n):
    args = [a, b, " y ", "n "][:n]
    return replay_fn("#ifeq", args, r_ifeq(args))
''')
    shapes = {"K": "K=V", "F": "K", "D": "#default=V", "X": "#default"}
    nmax = 2 if quick else 3
    for n in range(1, nmax + 1):
        for sk in itertools.product("KFDX", repeat=n):
            ks = [f"k{i}" for i, s in enumerate(sk) if s in "KF"]
            params = ", ".join(["val: str"] + [f"{k}: str" for k in ks])
            pre = " and ".join(['len(val) == 1 and val[0] in "ab"'] + [f'len({k}) == 1 and {k}[0] in "ab"' for k in ks])
            items = []
            for i, s in enumerate(sk):
                if s == "K":
                    items.append(f'k{i} + "= v{i} "')
                elif s == "F":
                    items.append(f"k{i}")
                elif s == "D":
                    items.append(f'"#default=d{i}"')
                else:
                    items.append('"#default"')
            args = "[val, " + ", ".join(items) + "]"
            tag = "".join(sk)
            out.append(f'''
def sw_{tag}({params}) -> bool:
    """
    pre: {pre}
    post: _
    """
    args = {args}
    return call("#switch", args) == r_switch(args)


def replay_sw_{tag}({", ".join(["val"] + ks)}):
    args = {args}
    return replay_fn("#switch", args, r_switch(args))
''')
    out.append('''
def autonewline(t: str) -> bool:
    """
    pre: len(t) <= 3
    post: _
    """
    want = ("\\n" + t) if (t[:1] in ("*", ";", ":", "#") or t[:2] == "{|") else t
    return add_newline_to_expansion(t) == want


def replay_autonewline(t):
    w = Wtp(quiet=True, quiet_output=True)
    w.add_page("Template:t", 10, "<includeonly>" + t + "</includeonly>")
    w.start_page("T")
    got = w.expand("x{{t}}")
    want = "x" + (("\\n" + t) if (t[:1] in ("*", ";", ":", "#") or t[:2] == "{|") else t)
    return ("template body " + repr(t) + ": expand('x{{t}}')", got != want, f"result {got!r}, expected {want!r}")
''')
    return "\n".join(out)


def toplevel_default(rep: C.Report) -> None:
    """Ob5 (E3): in expand_recurse's branch for a parameter reference outside a template, whatever expand_args returns
    (it may be the default value, holding further calls) is passed through expand_recurse before it is emitted."""
    import ast

    import z3

    from vf import astpaths as AP

    ob = rep.add(C.Ob("Ob5 a parameter reference used at page level has its default value expanded", "E3 AST path encoder + z3", [], "all syntactic paths of one iteration of expand_recurse's cookie loop"))
    try:
        tree = ast.parse(open(os.path.join(C.SRC, "core.py")).read())
        fns = [f for q, f in AP.functions(tree) if q[-1] == "expand_recurse"]
        if len(fns) != 1:
            ob.verdict, ob.detail = C.NOT_ENCODABLE, "expand_recurse not found"
            return
        fn = fns[0]
        ob.functions.append(f"core.py:Wtp.expand.expand_recurse@{fn.lineno}")

        def branch(test, pol):
            if isinstance(test, ast.Compare) and isinstance(test.left, ast.Name) and test.left.id == "kind" and len(test.ops) == 1 and isinstance(test.ops[0], ast.Eq) and isinstance(test.comparators[0], ast.Constant) and test.comparators[0].value == "A":
                return {"inA": 1} if pol else None
            return None

        def delta(n):
            if isinstance(n, ast.Call) and isinstance(n.func, ast.Name):
                if n.func.id == "expand_args":
                    return {"ea": 1}
                if n.func.id == "expand_recurse":
                    return {"rec": 1}
            return None

        enc = AP.Encoder(fn, ["inA", "ea", "rec"], delta, branch=branch).run()
        bad, seen = [], False
        for ex in enc.exits:
            if ex.base is None:
                continue
            d = {k: ex.counters[k] - ex.base[k] for k in ex.counters}
            s0 = z3.Solver()
            s0.add(ex.guard, d["inA"] >= 1, d["ea"] >= 1)
            if str(s0.check()) == "sat":
                seen = True
            s = z3.Solver()
            s.add(ex.guard, d["inA"] >= 1, d["ea"] >= 1, d["rec"] == 0)
            r = str(s.check())
            ob.queries += 2
            ob.paths += 1
            ob.conditions += 1
            if r == "unsat":
                ob.confirmed_conditions += 1
            else:
                bad.append((ex.kind, ex.line))
        if not seen:
            ob.verdict, ob.detail = C.NOT_ENCODABLE, "no path through the kind == 'A' branch calls expand_args"
            return
        ob.samples.append({"query": "iteration through the parameter-reference branch calls expand_args but never expand_recurse", "violating_exits": bad})
        if not bad:
            ob.verdict = C.DISCHARGED
            return
        from wikitextprocessor import Wtp

        w = Wtp(quiet=True, quiet_output=True)
        w.add_page("Template:t", 10, "T({{{1}}})")
        w.start_page("P")
        got = w.expand("{{{1|{{t|x}}}}}")
        if got != "T(x)":
            v = rep.violation("expand('{{{1|{{t|x}}}}}') at page level with Template:t = 'T({{{1}}})'", f"result {got!r}: the call inside the default value is not expanded (expected 'T(x)')", {"doc": "{{{1|{{t|x}}}}}"})
            ob.verdict = C.VIOLATED if v.known is None else C.KNOWN
        else:
            ob.detail = f"path(s) {bad} skip expand_recurse but the replay expands the default -> inconclusive"
    except Exception as e:  # noqa: BLE001
        ob.detail += f"{type(e).__name__}: {e}"


def template_body_pipeline(rep: C.Report, pid: str = "C04") -> None:
    """Ob6: _template_to_body as a pipeline of regex passes - pass order and early exits (vf/passes.py)."""
    import ast

    from vf import astpaths as AP
    from vf import passes as PS

    ob = rep.add(C.Ob("Ob6 includable-part pipeline: comments go before noinclude handling, paired before unclosed, no early exit skips a pass", "E2 z3 (regex overlap, guard constraints) + AST order", ["core.py:Wtp._template_to_body"], "all strings (no length bound) for the overlap and early-exit queries"))
    try:
        tree = ast.parse(open(os.path.join(C.SRC, "core.py")).read())
        fns = [f for q, f in AP.functions(tree) if q[-1] == "_template_to_body"]
        if len(fns) != 1:
            ob.verdict, ob.detail = C.NOT_ENCODABLE, "_template_to_body not found"
            return
        fn = fns[0]
        ps = PS.passes(fn)
        named = {
            # the first pass that removes closed comments (it may or may not also handle an unclosed one)
            "comment_closed": PS.find_pass(ps, ["<!--x-->", "a<!-- b -->c"], ["<noinclude>x</noinclude>", "x"]),
            "noinclude_paired": PS.find_pass(ps, ["<noinclude>x</noinclude>", "<NOINCLUDE>x</noinclude >"], ["<noinclude>x", "<onlyinclude>x</onlyinclude>"]),
            "noinclude_open": PS.find_pass(ps, ["<noinclude>x"], ["<!--x", "<onlyinclude>x"]),
        }
        if named["noinclude_open"] is named["noinclude_paired"]:
            named["noinclude_open"] = next((p for p in ps if p is not named["noinclude_paired"] and p.matches("<noinclude>x") and not p.matches("<!--x")), None)
        missing = [k for k, v in named.items() if v is None]
        if missing:
            ob.verdict, ob.detail = C.NOT_ENCODABLE, f"passes not identified: {missing} (patterns found: {[p.pattern[:30] for p in ps]})"
            return
        problems = []
        for a, b, witness, want in [
            ("comment_closed", "noinclude_paired", "X<!-- <noinclude> -->Y<!-- </noinclude> -->Z", "XYZ"),
            ("comment_closed", "noinclude_open", "X<!-- put docs inside <noinclude> -->Y", "XY"),
            ("noinclude_paired", "noinclude_open", "X<noinclude>a</noinclude>Y<noinclude>b</noinclude>Z", "XYZ"),
        ]:
            r, wit = PS.order_matters(named[a], named[b])
            ob.queries += 1
            ob.paths += 1
            ob.conditions += 1
            ordered = named[a].line < named[b].line
            ob.samples.append({"precedence": f"{a} before {b}", "order_matters(z3)": r, "overlap_witness": wit, "ast_order_ok": ordered})
            if ordered or r == "unsat":
                ob.confirmed_conditions += 1
            else:
                problems.append((f"{b} runs before {a}", witness, want))
        exits = PS.early_exits(fn, fn.args.args[2].arg if len(fn.args.args) > 2 else "text", ps)
        for line, status, wit in exits:
            ob.queries += 1
            ob.paths += 1
            ob.conditions += 1
            if status == "ok":
                ob.confirmed_conditions += 1
            elif status == "skips":
                ob.samples.append({"early_return_at": line, "z3_witness": wit})
                problems.append((f"early return at core.py:{line} skips a pass", wit, None))
            else:
                ob.detail += f"early return at line {line}: guard not translatable; "
        if not problems:
            ob.verdict = C.DISCHARGED if not ob.detail else C.INCONCLUSIVE
            return
        # replay: the text as a template body
        import importlib.util

        gen0, _ = xh.prepare(H)
        mod = xh.load(gen0)
        hit = None
        for why, body, want in problems:
            sig, bad, what = mod.replay_body(body)
            if bad:
                hit = (why, sig, what)
                break
        if hit:
            v = rep.violation(hit[1], f"{hit[0]}: {hit[2]}", {"body": body})
            ob.verdict = C.VIOLATED if v.known is None else C.KNOWN
        else:
            ob.detail += f"{[p[0] for p in problems]} but the replay documents transclude as the includable-part scanner says -> inconclusive"
    except Exception as e:  # noqa: BLE001
        ob.detail += f"{type(e).__name__}: {e}"


KNOWN_PROBES = [
    ("{{#ifeq:01|1|y|n}}", "y", "#ifeq compares '01' and '1' as strings; MediaWiki compares numerically when both are numbers"),
]


def run(rep: C.Report) -> None:
    quick = C.tier() == "quick"
    rep.explanation = (
        "Kernels of the transclusion semantics under CrossHair: _template_to_body equals an independent includable-part scanner on body skeletons (noinclude / onlyinclude / includeonly / comments, closed and unclosed) "
        "with symbolic filler characters; the AST-sliced expand_args resolves {{{name|default}}} for symbolic names against a fixed argument map (trimmed name, positive numerals positional, default, literal); "
        "#if / #ifeq / #switch equal the ParserFunctions algorithm for symbolic arguments / every case skeleton; add_newline_to_expansion equals its rule."
    )
    rep.assumptions += ["string comparison in #ifeq/#switch (numeric comparison is a recorded finding, probed concretely each run)", "expand_recurse := identity in the expand_args slice (argument values are plain text)"]
    rep.outside += ["caller-frame expansion of arguments, later-duplicate-wins, recursion through the whole expander", "missing-template link", "argument splitting (decided under C14)"]
    rep.trusted += ["CrossHair 0.0.110", "z3", "vf/slicer.py", "reference scanner / switch algorithm in harness/C04_kernels.py"]
    try:
        from wikitextprocessor import Wtp

        w = Wtp(quiet=True, quiet_output=True)
        w.start_page("T")
        for doc, want, what in KNOWN_PROBES:
            got = w.expand(doc)
            if got != want:
                rep.violation(f"expand({doc!r})", f"result {got!r}; {what}", {"doc": doc})
    except Exception as e:  # noqa: BLE001
        rep.extra["known_probe_error"] = f"{type(e).__name__}: {e}"
    try:
        src = open(H).read() + "\n" + gen(quick)
        xh.check_harness(
            rep,
            H,
            {
                "^body_": dict(name="Ob1 only the includable part of a template body is transcluded", functions=["core.py:Wtp._template_to_body"], bounds="4 (thorough 11) body skeletons with one symbolic filler character over {a,space,newline,<,>,-,/} before, between and after the tags"),
                "^bind_": dict(name="Ob7 an argument passed as name=value is found by {{{name}}}: the expander's key and the reference's key agree", functions=["core.py:Wtp.expand argument loop (AST slice)", "core.py:Wtp.expand.expand_args (AST slice)"], bounds=f"names of 1..{2 if quick else 3} symbolic chars over {{0,1,a,space}}"),
                "^param_": dict(name="Ob2 parameter references: trimmed name, positional numerals, default, literal when undefined", functions=["core.py:Wtp.expand.expand_args (AST slice)"], bounds=f"names of 1..{3 if quick else 4} symbolic chars over {{space,1,2,a,b,newline}}, with/without default, fixed argument map"),
                "^fn_|^sw_": dict(name="Ob3 #if / #ifeq / #switch follow the ParserFunctions rules", functions=["parserfns.py:if_fn", "parserfns.py:ifeq_fn", "parserfns.py:switch_fn"], bounds=f"#if/#ifeq: 0..4 arguments <= 2 symbolic chars; #switch: every case skeleton of 1..{2 if quick else 3} items over {{k=v, fall-through, #default=v, #default}} with symbolic keys and value"),
                "^autonewline": dict(name="Ob4 automatic newline before list/table markers", functions=["common.py:add_newline_to_expansion"], bounds="t <= 3 symbolic chars (full Unicode)"),
            },
            timeout=90 if quick else 400,
            src=src,
            batch=4,
            twins=False,
        )
    except Exception as e:  # noqa: BLE001
        rep.add(C.Ob("kernels", "E1 CrossHair", [], "", verdict=C.NOT_ENCODABLE, detail=f"{type(e).__name__}: {e}"))
    toplevel_default(rep)
    template_body_pipeline(rep)


def replay(r: dict) -> int:
    print(r)
    return 0
