"""C04 - template expansion agrees with the reference transclusion semantics (kernels)."""
from __future__ import annotations

import itertools
import os
import time

from vf import common as C
from vf import xh

H = os.path.join(C.VERIF, "harness", "C04_kernels.py")


def gen(quick: bool) -> str:
    out = []
    # Ob1: body skeletons with symbolic holes
    HOLE = '"a \\n<>-/"'
    hl = 1
    skels = {
        "noinc": ["<noinclude>", "</noinclude>"],
        "noinc_open": ["<noinclude>"],
        "only": ["<onlyinclude>", "</onlyinclude>"],
        "inconly": ["<includeonly>", "</includeonly>"],
        "cmt": ["<!--", "-->"],
        "cmt_open": ["<!--"],
        "noinc_sp": ["<noinclude >", "</noinclude >"],
        "only2": ["<onlyinclude>", "</onlyinclude>", "<onlyinclude>", "</onlyinclude>"],
        "mix": ["<noinclude>", "</noinclude>", "<includeonly>", "</includeonly>"],
    }
    skels["NOINC"] = ["<NOINCLUDE>", "</NoInclude>"]  # tag names are case-insensitive
    skels["noinc_in_cmt"] = ["<!--", "<noinclude>", "-->"]  # a tag merely mentioned inside a comment
    if not quick:
        skels["cmt_in_noinc"] = ["<noinclude>", "<!--", "</noinclude>", "-->"]
    quick_skels = {"noinc", "noinc_open", "cmt", "cmt_open"}  # the others need > 90 s per condition (measured): thorough only
    for tag, lits in skels.items():
        if quick and tag not in quick_skels:
            continue
        if quick and tag in ("NOINC", "noinc_in_cmt"):
            # case-insensitive matching forks on every *pinned* symbolic character; here the tags are concrete text and only
            # the filler between them is a symbolic one-character string (one concatenation is affordable)
            hs = [f"h{i}" for i in range(len(lits) - 1)]
            expr = '"A" + ' + " + ".join(x for i, lit in enumerate(lits) for x in ([repr(lit)] if i == 0 else [f"h{i - 1}", repr(lit)])) + ' + "B"'
            out.append(f'''
def body_{tag}({", ".join(h + ": str" for h in hs)}) -> bool:
    """
    pre: {" and ".join(f"len({h}) == 1 and {h}[0] in {HOLE}" for h in hs)}
    post: _
    """
    return body_ok({expr})


def replay_body_{tag}({", ".join(hs)}):
    return replay_body({expr})
''')
            continue
        pos = 0
        pins, holes = [], []
        for lit in lits:
            for _ in range(hl):
                holes.append(pos)
                pos += 1
            pins.append((pos, lit))
            pos += len(lit)
        for _ in range(hl):
            holes.append(pos)
            pos += 1
        pre_p = " and ".join(f"pinned(text, {at}, {lit!r})" for at, lit in pins)
        pre_h = " and ".join(f"text[{i}] in {HOLE}" for i in holes)
        out.append(f'''
def body_{tag}(text: str) -> bool:
    """
    pre: len(text) == {pos}
    pre: {pre_p}
    pre: {pre_h}
    post: _
    """
    return body_ok(text)


def replay_body_{tag}(text):
    return replay_body(text)
''')
    # Ob2: parameter references
    for L in range(1, (3 if quick else 4) + 1):
        pre = " and ".join(f'name[{i}] in " 1a\\nb2"' for i in range(L))
        out.append(f'''
def param_{L}(name: str, has_default: bool) -> bool:
    """
    pre: len(name) == {L} and {pre}
    post: _
    """
    return param_ok(name, has_default)


def replay_param_{L}(name, has_default):
    return replay_param(name, has_default)
''')
    # Ob7: name=value passed to a template is found by {{{name}}} (numeric-looking names included)
    for L in (1, 2) if quick else (1, 2, 3):
        pre = " and ".join(f'name[{i}] in "01a "' for i in range(L)) + " and (" + " or ".join(f'name[{i}] in "01a"' for i in range(L)) + ")"
        out.append(f'''
def bind_{L}(name: str) -> bool:
    """
    pre: len(name) == {L} and {pre}
    post: _
    """
    return bind_roundtrip(name)


def replay_bind_{L}(name):
    return replay_bind(name)
''')
    # Ob3: #if / #ifeq with symbolic arguments, #switch over case skeletons
    out.append('''
def fn_if(a: str, b: str, c: str, n: int) -> bool:
    """
    pre: 0 <= n <= 3 and len(a) <= 2 and len(b) <= 2 and len(c) <= 2
    pre: all(ch in "a \\n" for ch in a) and all(ch in "b \\n" for ch in b) and all(ch in "c \\n" for ch in c)
    post: _
    """
    args = [a, b, c][:n]
    return call("#if", args) == r_if(args)


def replay_fn_if(a, b, c, n):
    args = [a, b, c][:n]
    return replay_fn("#if", args, r_if(args))


def fn_if_padded(truthy: bool, blank: bool, n: int) -> bool:
    """
    pre: n == 3
    post: _
    """
    # (concrete texts, symbolic shape: strip() of a concatenation with a symbolic string gave non-reproducing models)
    args = [("x" if truthy else (" " if blank else "")), " b", "c "][:n]
    return call_padded("#if", args) == r_if_padded(args)


def replay_fn_if_padded(truthy, blank, n):
    args = [("x" if truthy else (" " if blank else "")), " b", "c "][:n]
    return replay_fn_padded("#if", args, r_if_padded(args))


def fn_ifeq_padded(same: bool, n: int) -> bool:
    """
    pre: n == 4
    post: _
    """
    args = ["a", "a" if same else "b", " y", "n "][:n]
    return call_padded("#ifeq", args) == r_ifeq(args)


def replay_fn_ifeq_padded(same, n):
    args = ["a", "a" if same else "b", " y", "n "][:n]
    return replay_fn_padded("#ifeq", args, r_ifeq(args))


def fn_ifeq(a: str, b: str, n: int) -> bool:
    """
    pre: 0 <= n <= 4 and len(a) <= 2 and len(b) <= 2
    pre: all(ch in "ab \\n" for ch in a) and all(ch in "ab \\n" for ch in b)
    post: _
    """
    args = [a, b, " y ", "n "][:n]
    return call("#ifeq", args) == r_ifeq(args)


def replay_fn_ifeq(a, b, n):
    args = [a, b, " y ", "n "][:n]
    return replay_fn("#ifeq", args, r_ifeq(args))
''')
    shapes = {"K": "K=V", "F": "K", "D": "#default=V", "X": "#default"}
    nmax = 2 if quick else 3
    skeletons = [sk for n in range(1, nmax + 1) for sk in itertools.product("KFDX", repeat=n)]
    if quick:
        # fall-through groups need three items to show that the "matched" flag is sticky: every 3-item skeleton that starts
        # with a bare case, and the 4-item groups
        skeletons += [sk for sk in itertools.product("KFDX", repeat=3) if sk[0] == "F"] + [tuple("FFFK"), tuple("FFFD"), tuple("FKFK")]
    else:
        skeletons += [tuple("FFFK"), tuple("FFFD"), tuple("FKFK"), tuple("FFFFK")]
    if True:
        for sk in skeletons:
            ks = [f"k{i}" for i, s in enumerate(sk) if s in "KF"]
            params = ", ".join(["val: str"] + [f"{k}: str" for k in ks])
            pre = " and ".join(['len(val) == 1 and val[0] in "ab"'] + [f'len({k}) == 1 and {k}[0] in "ab"' for k in ks])
            items = []
            for i, s in enumerate(sk):
                if s == "K":
                    items.append(f'k{i} + "= v{i} "')
                elif s == "F":
                    items.append(f"k{i}")
                elif s == "D":
                    items.append(f'"#default=d{i}"')
                else:
                    items.append('"#default"')
            args = "[val, " + ", ".join(items) + "]"
            tag = "".join(sk)
            out.append(f'''
def sw_{tag}({params}) -> bool:
    """
    pre: {pre}
    post: _
    """
    args = {args}
    return call("#switch", args) == r_switch(args)


def replay_sw_{tag}({", ".join(["val"] + ks)}):
    args = {args}
    return replay_fn("#switch", args, r_switch(args))
''')
    # later duplicates win: skeletons of 2 (thorough 3) arguments over {named, positional}; names and values symbolic
    for n in ((2,) if quick else (2, 3)):
        for sk in itertools.product("NP", repeat=n):
            if "N" not in sk:
                continue
            skel = "".join(sk)
            nn = skel.count("N")
            ps = [f"n{i}: str" for i in range(nn)] + [f"v{i}: str" for i in range(n)]
            pre = " and ".join([f'len(n{i}) == 1 and n{i}[0] in "ab12"' for i in range(nn)] + [f'len(v{i}) == 1 and v{i}[0] in "xy "' for i in range(n)])
            names = "[" + ", ".join(f"n{i}" for i in range(nn)) + "]"
            values = "[" + ", ".join(f"v{i}" for i in range(n)) + "]"
            out.append(f'''
def dup_{skel}({", ".join(ps)}) -> bool:
    """
    pre: {pre}
    post: _
    """
    return dup_binding_ok({skel!r}, {names}, {values})


def replay_dup_{skel}({", ".join(p.split(":")[0] for p in ps)}):
    return replay_dup_binding({skel!r}, {names}, {values})
''')
    out.append('''
def nlres_all(shape: int, first: int, lead: bool) -> bool:
    """
    pre: 0 <= shape < len(NL_SHAPES) and 0 <= first < len(NL_FIRST)
    post: _
    """
    return nl_result_ok(shape, first, lead)


def replay_nlres_all(shape, first, lead):
    return replay_nl_result(shape, first, lead)
''')
    out.append('''
def autonewline(t: str) -> bool:
    """
    pre: len(t) <= 3
    post: _
    """
    want = ("\\n" + t) if (t[:1] in ("*", ";", ":", "#") or t[:2] == "{|") else t
    return add_newline_to_expansion(t) == want


def replay_autonewline(t):
    w = Wtp(quiet=True, quiet_output=True)
    w.add_page("Template:t", 10, "<includeonly>" + t + "</includeonly>")
    w.start_page("T")
    got = w.expand("x{{t}}")
    want = "x" + (("\\n" + t) if (t[:1] in ("*", ";", ":", "#") or t[:2] == "{|") else t)
    return ("template body " + repr(t) + ": expand('x{{t}}')", got != want, f"result {got!r}, expected {want!r}")
''')
    return "\n".join(out)


def toplevel_default(rep: C.Report) -> None:
    """Ob5 (E3): in expand_recurse's branch for a parameter reference outside a template, whatever expand_args returns
    (it may be the default value, holding further calls) is passed through expand_recurse before it is emitted."""
    import ast

    import z3

    from vf import astpaths as AP

    ob = rep.add(C.Ob("Ob5 a parameter reference used at page level has its default value expanded", "E3 AST path encoder + z3", [], "all syntactic paths of one iteration of expand_recurse's cookie loop"))
    try:
        tree = ast.parse(open(os.path.join(C.SRC, "core.py")).read())
        fns = [f for q, f in AP.functions(tree) if q[-1] == "expand_recurse"]
        if len(fns) != 1:
            ob.verdict, ob.detail = C.NOT_ENCODABLE, "expand_recurse not found"
            return
        fn = fns[0]
        ob.functions.append(f"core.py:Wtp.expand.expand_recurse@{fn.lineno}")

        def branch(test, pol):
            if isinstance(test, ast.Compare) and isinstance(test.left, ast.Name) and test.left.id == "kind" and len(test.ops) == 1 and isinstance(test.ops[0], ast.Eq) and isinstance(test.comparators[0], ast.Constant) and test.comparators[0].value == "A":
                return {"inA": 1} if pol else None
            return None

        def delta(n):
            if isinstance(n, ast.Call) and isinstance(n.func, ast.Name):
                if n.func.id == "expand_args":
                    return {"ea": 1}
                if n.func.id == "expand_recurse":
                    return {"rec": 1}
            return None

        enc = AP.Encoder(fn, ["inA", "ea", "rec"], delta, branch=branch).run()
        bad, seen = [], False
        for ex in enc.exits:
            if ex.base is None:
                continue
            d = {k: ex.counters[k] - ex.base[k] for k in ex.counters}
            s0 = z3.Solver()
            s0.add(ex.guard, d["inA"] >= 1, d["ea"] >= 1)
            if str(s0.check()) == "sat":
                seen = True
            s = z3.Solver()
            s.add(ex.guard, d["inA"] >= 1, d["ea"] >= 1, d["rec"] == 0)
            r = str(s.check())
            ob.queries += 2
            ob.paths += 1
            ob.conditions += 1
            if r == "unsat":
                ob.confirmed_conditions += 1
            else:
                bad.append((ex.kind, ex.line))
        if not seen:
            ob.verdict, ob.detail = C.NOT_ENCODABLE, "no path through the kind == 'A' branch calls expand_args"
            return
        ob.samples.append({"query": "iteration through the parameter-reference branch calls expand_args but never expand_recurse", "violating_exits": bad})
        if not bad and not C.distrust():
            ob.verdict = C.DISCHARGED
            return
        from wikitextprocessor import Wtp

        w = Wtp(quiet=True, quiet_output=True)
        w.add_page("Template:t", 10, "T({{{1}}})")
        w.start_page("P")
        got = w.expand("{{{1|{{t|x}}}}}")
        if got != "T(x)":
            v = rep.violation("expand('{{{1|{{t|x}}}}}') at page level with Template:t = 'T({{{1}}})'", f"result {got!r}: the call inside the default value is not expanded (expected 'T(x)')", {"doc": "{{{1|{{t|x}}}}}"})
            ob.verdict = C.VIOLATED if v.known is None else C.KNOWN
        else:
            ob.detail = f"path(s) {bad} skip expand_recurse but the replay expands the default -> inconclusive"
    except Exception as e:  # noqa: BLE001
        ob.detail += f"{type(e).__name__}: {e}"


def missing_template_link(rep: C.Report) -> None:
    """Ob9: a call of a template that does not exist becomes a link to the template page.  AST fact on the expander: the
    `else` of the test "the looked-up page exists and has a body" assigns the text `[[:<namespace name>:<name>]]` (an
    f-string / concatenation with exactly the constant parts '[[:', ':' and ']]' around the namespace name and the call's
    name) to the variable that is appended to the output; if the shape is not found, four documents are replayed."""
    import ast

    from vf import astpaths as AP

    ob = rep.add(C.Ob("Ob9 a call of a missing template becomes [[:Template:name]]", "AST fact + replay", ["core.py:Wtp.expand.expand_recurse (template branch)"], "structure of the missing-page branch; replay: 4 documents"))
    try:
        tree = ast.parse(open(os.path.join(C.SRC, "core.py")).read())
        fns = [f for q, f in AP.functions(tree) if q[-1] == "expand_recurse"]
        ok = False
        for fn in fns:
            for node in ast.walk(fn):
                if not (isinstance(node, ast.If) and "template_page" in ast.unparse(node.test) and "is not None" in ast.unparse(node.test) and node.orelse):
                    continue
                for st in node.orelse:
                    if isinstance(st, ast.Assign) and isinstance(st.value, ast.JoinedStr):
                        consts = [v.value for v in st.value.values if isinstance(v, ast.Constant)]
                        exprs = [ast.unparse(v.value) for v in st.value.values if isinstance(v, ast.FormattedValue)]
                        if consts == ["[[:", ":", "]]"] and len(exprs) == 2 and "name" in exprs[0] and exprs[1] == "name":
                            ok = True
        ob.conditions = ob.queries = ob.paths = 1
        if ok and not C.distrust():
            ob.verdict = C.DISCHARGED
            ob.confirmed_conditions = 1
            return
        from wikitextprocessor import Wtp

        w = Wtp(quiet=True, quiet_output=True)
        w.add_page("Template:a", 10, "A({{{1|}}})")
        for doc, want in (("{{nosuch}}", "[[:Template:nosuch]]"), ("{{nosuch|x|b=c}}", "[[:Template:nosuch]]"), ("x{{a|{{no such}}}}y", "xA([[:Template:no such]])y"), ("{{Nosuch x}}{{a}}", "[[:Template:Nosuch x]]A()")):
            w.start_page("T")
            got = w.expand(doc)
            if got != want:
                v = rep.violation(f"expand({doc!r}) with no page 'Template:nosuch'", f"result {got!r}, expected {want!r} (a missing template becomes a link to the template page)", {"doc": doc})
                ob.verdict = C.VIOLATED if v.known is None else C.KNOWN
                ob.confirmed_conditions = 1
                return
        ob.detail = "the missing-page branch does not have the expected shape, but the four replay documents expand to the link -> inconclusive"
    except Exception as e:  # noqa: BLE001
        ob.detail += f"{type(e).__name__}: {e}"


def frame_discipline(rep: C.Report) -> None:
    """Ob10: arguments are expanded in the CALLER's frame, the body in the callee's.  AST facts on the template branch of
    expand_recurse: (a) every expand_recurse(...) inside the loop over the call's arguments passes the enclosing function's own
    frame parameter as frame; (b) the body is first substituted with expand_args(<body>, <the argument map built by that
    loop>) and (c) then expanded with a frame whose argument map is that same map.  Otherwise nested calls are replayed."""
    import ast

    from vf import astpaths as AP

    ob = rep.add(C.Ob("Ob10 template arguments are expanded in the caller's frame, the body in the callee's", "AST facts + replay", ["core.py:Wtp.expand.expand_recurse (template branch)"], "all expand_recurse / expand_args call sites of the template branch; replay: 4 nested documents"))
    try:
        tree = ast.parse(open(os.path.join(C.SRC, "core.py")).read())
        fns = [f for q, f in AP.functions(tree) if q[-1] == "expand_recurse"]
        if len(fns) != 1:
            ob.verdict, ob.detail = C.NOT_ENCODABLE, "expand_recurse not found"
            return
        fn = fns[0]
        frame_param = fn.args.args[1].arg if len(fn.args.args) > 1 else None
        problems = []
        loops = [n for n in ast.walk(fn) if isinstance(n, ast.For) and "args[1:]" in ast.unparse(n.iter)]
        arg_loops = [lp for lp in loops if any(isinstance(c, ast.Call) and isinstance(c.func, ast.Name) and c.func.id == "expand_recurse" for c in ast.walk(lp))]
        if not arg_loops:
            ob.verdict, ob.detail = C.NOT_ENCODABLE, "argument loop not found"
            return
        n_calls = 0
        maps = set()
        for lp in arg_loops:
            for c in ast.walk(lp):
                if isinstance(c, ast.Call) and isinstance(c.func, ast.Name) and c.func.id == "expand_recurse":
                    n_calls += 1
                    if not (len(c.args) >= 2 and isinstance(c.args[1], ast.Name) and c.args[1].id == frame_param):
                        problems.append(f"argument expansion at core.py:{c.lineno} uses frame {ast.unparse(c.args[1]) if len(c.args) > 1 else '?'}")
            for st in ast.walk(lp):
                if isinstance(st, ast.Assign) and isinstance(st.targets[0], ast.Subscript) and isinstance(st.targets[0].value, ast.Name):
                    maps.add(st.targets[0].value.id)
        # body: expand_args(<...body...>, M) and expand_recurse(<...>, F, ...) with F = (<title>, M)
        ea = [c for c in ast.walk(fn) if isinstance(c, ast.Call) and isinstance(c.func, ast.Name) and c.func.id == "expand_args" and c.args and "body" in ast.unparse(c.args[0])]
        if not ea or not all(len(c.args) >= 2 and isinstance(c.args[1], ast.Name) and c.args[1].id in maps for c in ea):
            problems.append("the body is not substituted with the argument map built from the call")
        frames = {}
        for st in ast.walk(fn):
            if isinstance(st, ast.Assign) and len(st.targets) == 1 and isinstance(st.targets[0], ast.Name) and isinstance(st.value, ast.Tuple) and len(st.value.elts) == 2 and isinstance(st.value.elts[1], ast.Name):
                frames[st.targets[0].id] = st.value.elts[1].id
        body_calls = [c for c in ast.walk(fn) if isinstance(c, ast.Call) and isinstance(c.func, ast.Name) and c.func.id == "expand_recurse" and c.args and "body" in ast.unparse(c.args[0])]
        if not body_calls or not all(len(c.args) >= 2 and isinstance(c.args[1], ast.Name) and frames.get(c.args[1].id) in maps for c in body_calls):
            problems.append("the body is not expanded in a frame that carries the call's argument map")
        ob.conditions = ob.queries = ob.paths = n_calls + len(ea) + len(body_calls)
        ob.samples.append({"frame_parameter": frame_param, "argument_maps": sorted(maps), "argument_expansions": n_calls, "problems": problems})
        if not problems and not C.distrust():
            ob.verdict = C.DISCHARGED
            ob.confirmed_conditions = ob.conditions
            return
        from wikitextprocessor import Wtp

        w = Wtp(quiet=True, quiet_output=True)
        w.add_page("Template:t", 10, "[{{{1}}}|{{{k|}}}]")
        w.add_page("Template:u", 10, "{{t|{{{1}}}|k={{{2|d}}}}}")
        w.add_page("Template:v", 10, "{{u|{{{x}}}|{{{1}}}}}")
        for doc, want in (("{{u|A|B}}", "[A|B]"), ("{{u|A}}", "[A|d]"), ("{{v|Q|x=P}}", "[P|Q]"), ("{{t|{{{1}}}}}", "[{{{1}}}|]")):
            w.start_page("T")
            got = w.expand(doc)
            if got != want:
                v = rep.violation(f"templates t='[{{{{{{1}}}}}}|{{{{{{k|}}}}}}]', u='{{{{t|{{{{{{1}}}}}}|k={{{{{{2|d}}}}}}}}}}', v='{{{{u|{{{{{{x}}}}}}|{{{{{{1}}}}}}}}}}': expand({doc!r})", f"result {got!r}, expected {want!r} ({problems[0]})", {"doc": doc})
                ob.verdict = C.VIOLATED if v.known is None else C.KNOWN
                return
        ob.detail = f"{problems} but the nested replay documents expand correctly -> inconclusive"
    except Exception as e:  # noqa: BLE001
        ob.detail += f"{type(e).__name__}: {e}"


def template_body_pipeline(rep: C.Report, pid: str = "C04") -> None:
    """Ob6: _template_to_body as a pipeline of regex passes - pass order and early exits (vf/passes.py)."""
    import ast

    from vf import astpaths as AP
    from vf import passes as PS

    ob = rep.add(C.Ob("Ob6 includable-part pipeline: comments and noinclude elements are removed by one left-to-right scan (or by passes whose order cannot show), paired before unclosed, no early exit skips a pass", "E2 z3 (regex overlap, guard constraints) + AST order", ["core.py:Wtp._template_to_body"], "all strings (no length bound) for the overlap and early-exit queries"))
    try:
        tree = ast.parse(open(os.path.join(C.SRC, "core.py")).read())
        fns = [f for q, f in AP.functions(tree) if q[-1] == "_template_to_body"]
        if len(fns) != 1:
            ob.verdict, ob.detail = C.NOT_ENCODABLE, "_template_to_body not found"
            return
        fn = fns[0]
        ps = PS.passes(fn, tree)
        import re as _re

        def role(sample: str, want: str, flags_any: bool = True):
            """the first pass which, applied on its own, turns `sample` into `want` (a pass may hold several roles: a single
            left-to-right scan `comment|noinclude` is one pass with all of them)"""
            for p_ in ps:
                if p_.call != "sub":
                    continue
                try:
                    if _re.sub(p_.pattern, "", sample, flags=p_.flags) == want:
                        return p_
                except _re.error:
                    continue
            return None

        named = {
            "comment_closed": role("a<!-- b -->c", "ac"),
            "noinclude_paired": role("a<noinclude>x</noinclude>c", "ac"),
            "noinclude_open": role("a<noinclude>x", "a"),
        }
        missing = [k for k, v in named.items() if v is None]
        if missing:
            ob.verdict, ob.detail = C.NOT_ENCODABLE, f"passes not identified: {missing} (patterns found: {[p.pattern[:30] for p in ps]})"
            return
        problems = []
        # MediaWiki scans left to right: the construct that opens first extends to its own terminator.  Two separate
        # passes can only approximate that; z3 decides for each direction whether a text exists on which the order shows
        # (a full match of the later pass's pattern that contains a match of the earlier one's).  One combined pass
        # (alternation in a single re.sub) is a left-to-right scan by construction.
        W_COMMENT_FIRST = ("X<!-- <noinclude> -->Y<!-- </noinclude> -->Z", "XYZ")  # wrong when noinclude handling runs first
        W_NOINC_FIRST = ("X<noinclude>a<!--b</noinclude>Y-->Z", "XY-->Z")  # wrong when comment removal runs first
        for a, b in [("comment_closed", "noinclude_paired"), ("comment_closed", "noinclude_open")]:
            pa, pb = named[a], named[b]
            ob.conditions += 1
            ob.paths += 1
            if pa is pb:
                ob.confirmed_conditions += 1
                ob.samples.append({"pair": f"{a} / {b}", "structure": f"one left-to-right scan (core.py:{pa.line})"})
                continue
            first, second = (pa, pb) if pa.line < pb.line else (pb, pa)
            r, wit = PS.order_matters(second, first)
            ob.queries += 1
            ob.samples.append({"pair": f"{a} / {b}", "structure": f"separate passes, core.py:{first.line} runs before core.py:{second.line}", "order_shows(z3)": r, "overlap_witness": wit})
            if r == "unsat":
                ob.confirmed_conditions += 1
            else:
                w = W_NOINC_FIRST if first is pa else W_COMMENT_FIRST
                problems.append((f"{'comment removal' if first is pa else 'noinclude handling'} runs as a separate pass before {'noinclude handling' if first is pa else 'comment removal'} (z3: a construct of the later pass can contain an opener of the earlier one: {wit!r})", w[0], w[1]))
        # what the removing passes delete, as regular languages (unbounded): every comment and every noinclude element,
        # closed or running to the end of the text, is a full match of a removing pass; and every full match of a
        # removing pass starts with a comment opener or a noinclude open tag (nothing else is ever deleted by them)
        import z3

        from vf import resym as R

        removing = []
        for p_ in named.values():
            if p_ not in removing:
                removing.append(p_)
        try:
            U = z3.Union(*[R.fullmatch_lang(p_.pattern, p_.flags) for p_ in removing]) if len(removing) > 1 else R.fullmatch_lang(removing[0].pattern, removing[0].flags)
            ws = R.to_z3(r"\s*")
            ic = lambda lit: R.to_z3(_re.escape(lit), _re.I)  # noqa: E731
            no_end = lambda lit: z3.Complement(z3.Concat(R.ANYSTAR, z3.Re(lit), R.ANYSTAR))  # noqa: E731
            comment = z3.Concat(z3.Re("<!--"), R.ANYSTAR)  # closed (ends in -->) or running to the end
            opentag = z3.Concat(ic("<noinclude"), ws, z3.Re(">"))
            closetag = z3.Concat(ic("</noinclude"), ws, z3.Re(">"))
            noinc = z3.Concat(opentag, z3.Union(z3.Concat(R.ANYSTAR, closetag), z3.Intersect(R.ANYSTAR, z3.Complement(z3.Concat(R.ANYSTAR, closetag, R.ANYSTAR)))))
            x = z3.String("x")
            for label, lhs, rhs in [
                ("every comment (closed or unclosed) is a full match of a removing pass", z3.Concat(z3.Re("<!--"), z3.Union(z3.Concat(no_end("-->"), z3.Re("-->")), no_end("-->"))), U),
                ("every noinclude element (any case, blanks before '>', closed or unclosed) is a full match of a removing pass", noinc, U),
                ("a removing pass only deletes spans that start with '<!--' or a noinclude open tag", U, z3.Union(comment, z3.Concat(opentag, R.ANYSTAR))),
            ]:
                sol = z3.Solver()
                sol.set("timeout", 60000)
                sol.add(z3.InRe(x, lhs), z3.Not(z3.InRe(x, rhs)), z3.InRe(x, R.NOMARK))
                t0 = time.time()
                r = str(sol.check())
                ob.solver_s += time.time() - t0
                ob.queries += 1
                ob.paths += 1
                ob.conditions += 1
                if r == "unsat":
                    ob.confirmed_conditions += 1
                    ob.samples.append({"lemma": label, "z3": "unsat (inclusion holds, no length bound)"})
                elif r == "sat":
                    wit = R.z3str_to_py(sol.model().eval(x, model_completion=True).as_string())
                    ob.samples.append({"lemma": label, "z3": "sat", "witness": wit})
                    problems.append((f"language lemma fails: {label} (witness {wit!r})", "X" + wit, None))
                else:
                    ob.detail += f"lemma '{label[:40]}': solver {r}; "
        except R.Unsupported as e:
            ob.detail += f"language lemmas not encodable: {e}; "
        # paired before unclosed (or both in one alternative)
        pa, pb = named["noinclude_paired"], named["noinclude_open"]
        ob.conditions += 1
        ob.paths += 1
        if pa is pb or pa.line < pb.line:
            ob.confirmed_conditions += 1
            ob.samples.append({"pair": "noinclude_paired / noinclude_open", "structure": "same pass" if pa is pb else "paired first"})
        else:
            r, wit = PS.order_matters(pa, pb)
            ob.queries += 1
            if r == "unsat":
                ob.confirmed_conditions += 1
            else:
                problems.append(("unclosed-noinclude handling runs before the paired one", "X<noinclude>a</noinclude>Y<noinclude>b</noinclude>Z", "XYZ"))
        exits = PS.early_exits(fn, fn.args.args[2].arg if len(fn.args.args) > 2 else "text", ps)
        for line, status, wit in exits:
            ob.queries += 1
            ob.paths += 1
            ob.conditions += 1
            if status == "ok":
                ob.confirmed_conditions += 1
            elif status == "skips":
                ob.samples.append({"early_return_at": line, "z3_witness": wit})
                problems.append((f"early return at core.py:{line} skips a pass", wit, None))
            else:
                ob.detail += f"early return at line {line}: guard not translatable; "
        if not problems and not C.distrust():
            ob.verdict = C.DISCHARGED if not ob.detail else C.INCONCLUSIVE
            return
        # replay: the text as a template body
        import importlib.util

        gen0, _ = xh.prepare(H)
        mod = xh.load(gen0)
        hit = None
        for why, body, want in problems:
            sig, bad, what = mod.replay_body(body)
            if bad:
                hit = (why, sig, what)
                break
        if hit:
            v = rep.violation(hit[1], f"{hit[0]}: {hit[2]}", {"body": body})
            ob.verdict = C.VIOLATED if v.known is None else C.KNOWN
        else:
            ob.detail += f"{[p[0] for p in problems]} but the replay documents transclude as the includable-part scanner says -> inconclusive"
    except Exception as e:  # noqa: BLE001
        ob.detail += f"{type(e).__name__}: {e}"


KNOWN_PROBES = [
    ("{{#ifeq:01|1|y|n}}", "y", "#ifeq compares '01' and '1' as strings; MediaWiki compares numerically when both are numbers"),
]


def run(rep: C.Report) -> None:
    quick = C.tier() == "quick"
    rep.explanation = (
        "Kernels of the transclusion semantics under CrossHair: _template_to_body equals an independent includable-part scanner on body skeletons (noinclude / onlyinclude / includeonly / comments, closed and unclosed) "
        "with symbolic filler characters; the AST-sliced expand_args resolves {{{name|default}}} for symbolic names against a fixed argument map (trimmed name, positive numerals positional, default, literal); "
        "#if / #ifeq / #switch equal the ParserFunctions algorithm for symbolic arguments / every case skeleton; add_newline_to_expansion equals its rule."
    )
    rep.assumptions += ["string comparison in #ifeq/#switch (numeric comparison is a recorded finding, probed concretely each run)", "expand_recurse := identity in the expand_args slice (argument values are plain text)"]
    rep.outside += ["caller-frame expansion of arguments, later-duplicate-wins, recursion through the whole expander", "missing-template link", "argument splitting (decided under C14)"]
    rep.trusted += ["CrossHair 0.0.110", "z3", "vf/slicer.py", "reference scanner / switch algorithm in harness/C04_kernels.py"]
    try:
        from wikitextprocessor import Wtp

        w = Wtp(quiet=True, quiet_output=True)
        w.start_page("T")
        for doc, want, what in KNOWN_PROBES:
            got = w.expand(doc)
            if got != want:
                rep.violation(f"expand({doc!r})", f"result {got!r}; {what}", {"doc": doc})
    except Exception as e:  # noqa: BLE001
        rep.extra["known_probe_error"] = f"{type(e).__name__}: {e}"
    try:
        src = open(H).read() + "\n" + gen(quick)
        xh.check_harness(
            rep,
            H,
            {
                "^body_": dict(name="Ob1 only the includable part of a template body is transcluded", functions=["core.py:Wtp._template_to_body"], bounds="4 (thorough 11) body skeletons with one symbolic filler character over {a,space,newline,<,>,-,/} before, between and after the tags"),
                "^dup_": dict(name="Ob8 arguments are bound left to right: later duplicates win, positional arguments are numbered independently of named ones", functions=["core.py:Wtp.expand argument loop (AST slice)"], bounds=f"argument lists of 2{'' if quick else '..3'} over {{named, positional}}; names 1 symbolic char over {{a,b,1,2}}, values 1 symbolic char over {{x,y,space}}"),
                "^bind_": dict(name="Ob7 an argument passed as name=value is found by {{{name}}}: the expander's key and the reference's key agree", functions=["core.py:Wtp.expand argument loop (AST slice)", "core.py:Wtp.expand.expand_args (AST slice)"], bounds=f"names of 1..{2 if quick else 3} symbolic chars over {{0,1,a,space}}"),
                "^param_": dict(name="Ob2 parameter references: trimmed name, positional numerals, default, literal when undefined", functions=["core.py:Wtp.expand.expand_args (AST slice)"], bounds=f"names of 1..{3 if quick else 4} symbolic chars over {{space,1,2,a,b,newline}}, with/without default, fixed argument map"),
                "^fn_|^sw_": dict(name="Ob3 #if / #ifeq / #switch follow the ParserFunctions rules", functions=["parserfns.py:if_fn", "parserfns.py:ifeq_fn", "parserfns.py:switch_fn"], bounds=f"#if/#ifeq: 0..4 arguments <= 2 symbolic chars, with the identity expander and with an expander whose results are padded with blanks; #switch: every case skeleton of 1..{2 if quick else 3} items over {{k=v, fall-through, #default=v, #default}} with symbolic keys and value, plus {'the 3-item skeletons that start with a fall-through case and three 4-item groups' if quick else 'four longer fall-through groups'}"),
                "^nlres_": dict(name="Ob4b the automatic newline is decided on the RESULT of each expansion (after parameter substitution, defaults, nested calls, template_fn)", functions=["core.py:Wtp.expand.expand_recurse (template branch)", "common.py:add_newline_to_expansion"], bounds="6 ways a marker reaches the start of an expansion (positional parameter, default value, nested call, literal body, named parameter, template_fn) x first characters {*, #, :, ;, a, blank+*} (and {| for the literal body and template_fn) x with/without preceding text (symbolic indices: solver-driven case split, expand() untraced)"),
                "^autonewline": dict(name="Ob4 automatic newline before list/table markers", functions=["common.py:add_newline_to_expansion"], bounds="t <= 3 symbolic chars (full Unicode)"),
            },
            timeout=180 if quick else 400,
            src=src,
            batch=4,
            twins=False,
        )
    except Exception as e:  # noqa: BLE001
        rep.add(C.Ob("kernels", "E1 CrossHair", [], "", verdict=C.NOT_ENCODABLE, detail=f"{type(e).__name__}: {e}"))
    toplevel_default(rep)
    # an acyclic library may nest the same template through an argument: the loop detector must not fire (shared lemma of C05
    # Ob4, replayed here through expand() on nested documents)
    try:
        HL = os.path.join(C.VERIF, "harness", "C05_loop.py")
        over = "\nimport C04_kernels as _K4\n" + "".join(f"\n\ndef replay_loop_{k}(*a):\n    return _K4.replay_nested_same_template()\n" for k in range(2, 7))
        xh.check_harness(
            rep,
            HL,
            {"^loop_": dict(name="Ob11 nesting the same template through an argument (numbered or named) is not a loop: the detector exempts repetitions that start at an argument-value frame", functions=["core.py:detect_expand_template_loop", "core.py:Wtp.expand (ARGVAL- frames)"], bounds=f"stacks of 2..{5 if quick else 6} entries over 5 frame names (shared with C05 Ob4)")},
            timeout=150 if quick else 900,
            src=open(HL).read() + over,
            twins=False,
            select="^loop_[2-5]$" if quick else "^loop_",
        )
    except Exception as e:  # noqa: BLE001
        rep.add(C.Ob("Ob11 loop detector", "E1 CrossHair", [], "", verdict=C.NOT_ENCODABLE, detail=f"{type(e).__name__}: {e}"))
    template_body_pipeline(rep)
    missing_template_link(rep)
    frame_discipline(rep)


def replay(r: dict) -> int:
    print(r)
    return 0
