"""C06 - Lua code from pages is confined to the sandbox: the Python-side gates and the retained-host-module query only."""
from __future__ import annotations

import ast
import os
import re

import z3

from vf import common as C
from vf import xh

H = os.path.join(C.VERIF, "harness", "C06_gates.py")
CAPABILITIES = ["io", "os", "package", "debug", "_G", "python", "_sandbox_phase1"]  # from the property text (+ the phase-1 control table)
PROBE = r'''
local p = {}
function p.req(frame)
  local name = frame.args[1]
  local ok, m = pcall(require, name)
  if not ok or m == nil then return "DENIED" end
  if type(m) ~= "table" then return "GOT:" .. type(m) end
  local ks = {}
  for k, _ in pairs(m) do ks[#ks + 1] = tostring(k) end
  table.sort(ks)
  return "GOT:" .. table.concat(ks, ","):sub(1, 120)
end
function p.callglobal(frame)
  local fname, name = frame.args[1], frame.args[2]
  local f = _G[fname]
  if type(f) ~= "function" then return "NOFN" end
  local ok, m = pcall(f, name)
  if not ok or m == nil then return "DENIED" end
  if type(m) ~= "table" then return "GOT:" .. type(m) end
  local ks = {}
  for k, _ in pairs(m) do ks[#ks + 1] = tostring(k) end
  table.sort(ks)
  return "GOT:" .. table.concat(ks, ","):sub(1, 120)
end
function p.helper(frame)
  local out = {}
  for k, v in pairs(_G) do
    if type(v) == "userdata" then
      local ok, a = pcall(function() return v.args end)
      if ok and a ~= nil then out[#out + 1] = tostring(k) .. ".args=" .. tostring(a):sub(1, 60) end
    end
  end
  table.sort(out)
  return table.concat(out, ";")
end
return p
'''


def gen(quick: bool) -> str:
    out = []
    LM = 3 if quick else 5
    for L in range(1, LM + 1):
        alpha = '"./: a\\n\\\\"' if L <= 3 else '"./a"'
        pre = " and ".join(f"m[{i}] in {alpha}" for i in range(L))
        out.append(f'''
def loader_{L}(m: str) -> bool:
    """
    pre: len(m) == {L} and {pre}
    post: _
    """
    return loader_ok(m)


def replay_loader_{L}(m):
    return replay_loader(m)
''')
    # runs: the sanitiser collapses runs of dots and slashes; a pinned run of k equal characters followed by two
    # (thorough: three) symbolic characters reaches the run-handling code at a cost CrossHair can exhaust
    tail = 2 if quick else 3
    for ci, ch in enumerate("./:"):
        for k in range(2, 6 if quick else 8):
            pre = " and ".join([f"m[{i}] == {ch!r}" for i in range(k)] + [f'm[{k + j}] in "./a"' for j in range(tail)])
            out.append(f'''
def loader_run{ci}_{k}(m: str) -> bool:
    """
    pre: len(m) == {k + tail} and {pre}
    post: _
    """
    return loader_ok(m)


def replay_loader_run{ci}_{k}(m):
    return replay_loader(m)
''')
    out.append('''
def jsonconv(flags: int, shape: int, k0: int, k1: int) -> bool:
    """
    pre: 0 <= flags < 4 and 0 <= shape < len(JSHAPES) and 0 <= k0 < len(JKEYS) and 0 <= k1 < len(JKEYS)
    post: _
    """
    return json_converted(flags, shape, k0, k1)


def replay_jsonconv(flags, shape, k0, k1):
    return replay_json_converted(flags, shape, k0, k1)


def attr_history(name: str, first_setting: bool, setting: bool, first_kind: int) -> bool:
    """
    pre: 1 <= len(name) <= 4 and 0 <= first_kind < 3
    post: _
    """
    return filter_history_ok(name, first_setting, setting, first_kind)


def replay_attr_history(name, first_setting, setting, first_kind):
    return replay_filter_history(name, first_setting, setting, first_kind)


def attr_filter(name: str, on_partial: bool, setting: bool, as_bytes: bool) -> bool:
    """
    pre: len(name) <= 4
    post: _
    """
    return filter_ok(name, on_partial, setting, as_bytes)


def replay_attr_filter(name, on_partial, setting, as_bytes):
    return replay_filter(name, on_partial, setting, as_bytes)
''')
    return "\n".join(out)


def lua_functions(src: str):
    """top-level Lua functions of the sandbox file: name -> body text (the file defines them at column 0, closed by `end` at column 0)"""
    out = {}
    for m in re.finditer(r"^(?:local\s+)?function\s+([A-Za-z_][A-Za-z0-9_]*)\s*\(([^)]*)\)(.*?)^end\b", src, flags=re.S | re.M):
        out[m.group(1)] = m.group(3)
    return out


def lua_table_keys(src: str, name: str):
    """keys of `local <name> = { k = true, ... }` plus `<name>["k"] = true` assignments (enough for the two tables used)"""
    keys = set()
    m = re.search(r"local\s+" + re.escape(name) + r"\s*=\s*\{(.*?)\n\}", src, flags=re.S)
    if m:
        for line in m.group(1).splitlines():
            line = line.split("--")[0]
            for k in re.findall(r"([A-Za-z_][A-Za-z0-9_]*)\s*=\s*true", line):
                keys.add(k)
    for k in re.findall(re.escape(name) + r'\["([^"]+)"\]\s*=\s*true', src):
        keys.add(k)
    return keys if m else None


def runtime_facts(rep: C.Report) -> None:
    ob = rep.add(C.Ob("Ob3 no host capability library that the host keeps loaded can be obtained through require()", "z3 over tables read from the current Lua source and a fresh lupa runtime (finite, degenerate use of the solver)", ["lua/_sandbox_phase1.lua: retained_modules, host_only_modules, _cached_mod"], "module name: any string; capability set from the property text"))
    ob2 = rep.add(C.Ob("Ob4 LuaRuntime is created with register_eval=False and the attribute filter", "AST fact", ["luaexec.py:initialize_lua"], "-"))
    try:
        src = open(os.path.join(C.SRC, "lua", "_sandbox_phase1.lua")).read()
        retained = lua_table_keys(src, "retained_modules")
        blocked = lua_table_keys(src, "host_only_modules") or set()
        fns = lua_functions(src)
        exported = set(re.findall(r'env\["([A-Za-z_][A-Za-z0-9_]*)"\]\s*=\s*([A-Za-z_][A-Za-z0-9_]*)', src))
        exported_fn = {g: f for g, f in exported if f in fns}
        # functions that hand out entries of the host's package.loaded, and whether they consult the block list first
        readers = {f: body for f, body in fns.items() if re.search(r"return\s+_orig_package\.loaded\[|return\s+package\.loaded\[", body)}
        unguarded = sorted(f for f, body in readers.items() if not re.search(r"host_only_modules\[", body.split("return")[0]))
        reachable_unguarded = sorted(g for g, f in exported_fn.items() if f in unguarded)
        uses_block = bool(readers) and not unguarded
        if retained is None:
            ob.verdict, ob.detail = C.NOT_ENCODABLE, "retained_modules table not found"
        else:
            import lupa

            lua = lupa.LuaRuntime(register_eval=False)
            host_loaded = set(lua.eval("(function() local t = {} for k, _ in pairs(package.loaded) do t[#t + 1] = k end return table.concat(t, ',') end)()").split(","))
            host_loaded.add("python")
            name = z3.String("name")
            member = lambda s: z3.Or(*[name == z3.StringVal(k) for k in sorted(s)]) if s else z3.BoolVal(False)  # noqa: E731
            s = z3.Solver()
            s.add(member(retained), member(host_loaded), member(set(CAPABILITIES)))
            if uses_block:
                s.add(z3.Not(member(blocked)))
            r = str(s.check())
            ob.queries = ob.paths = ob.conditions = 1
            ob.samples.append({"retained": sorted(retained & set(CAPABILITIES)), "blocked_in__cached_mod": sorted(blocked) if uses_block else "no block list consulted", "host_package_loaded": sorted(host_loaded)})
            if r == "unsat":
                ob.verdict = C.DISCHARGED
                ob.confirmed_conditions = 1
            elif r == "sat":
                wit = s.model()[name].as_string()
                got = invoke_probe("req", wit)
                for g in reachable_unguarded:  # a reader exported into the sandbox environment can be called directly
                    if got.startswith("GOT:"):
                        break
                    got = invoke_probe("callglobal", g + "|" + wit)
                    if got.startswith("GOT:"):
                        wit = f"{g}({wit!r})"
                ob.samples.append({"z3_witness": wit, "replay": got, "unguarded_readers_of_package.loaded": unguarded, "exported_into_env": reachable_unguarded})
                if got.startswith("GOT:"):
                    v = rep.violation(f"Lua {wit if '(' in wit else 'require(' + repr(wit) + ')'} inside #invoke", f"sandboxed code obtains the host library: {got[:100]}", {"require": wit})
                    ob.verdict = C.VIOLATED if v.known is None else C.KNOWN
                    ob.confirmed_conditions = 1
                else:
                    ob.detail = f"tables admit {wit!r} but the real sandbox answers {got!r} -> inconclusive"
    except Exception as e:  # noqa: BLE001
        ob.detail += f"{type(e).__name__}: {e}"
    # AST fact
    try:
        tree = ast.parse(open(os.path.join(C.SRC, "luaexec.py")).read())
        calls = [n for n in ast.walk(tree) if isinstance(n, ast.Call) and ast.unparse(n.func).endswith("LuaRuntime")]
        ob2.conditions = ob2.queries = ob2.paths = len(calls)
        ok = bool(calls)
        for c in calls:
            kw = {k.arg: k.value for k in c.keywords}
            if not (isinstance(kw.get("register_eval"), ast.Constant) and kw["register_eval"].value is False and isinstance(kw.get("attribute_filter"), ast.Name) and kw["attribute_filter"].id == "filter_attribute_access"):
                ok = False
        if ok:
            ob2.verdict = C.DISCHARGED
            ob2.confirmed_conditions = len(calls)
        else:
            got = invoke_probe("helper", "")
            py = invoke_eval()
            ob2.samples.append({"helper_probe": got, "python_eval_probe": py})
            if "Wtp object" in got or py.startswith("GOT"):
                v = rep.violation("Lua probe module: attributes of the Python helpers / python.eval", f"sandboxed code reaches host objects: {got[:80]} {py[:60]}", {"probe": "helper"})
                ob2.verdict = C.VIOLATED if v.known is None else C.KNOWN
            else:
                ob2.detail = "LuaRuntime keywords differ from (register_eval=False, attribute_filter=filter_attribute_access) but the probe obtains nothing -> inconclusive"
    except Exception as e:  # noqa: BLE001
        ob2.detail += f"{type(e).__name__}: {e}"


ALLOWED_HOST_EXPRS = {"debug.traceback", "os.clock", "os.date", "os.difftime", "os.time"}
HOST_ROOTS = ("io", "os", "package", "debug", "python", "_G")
HOST_NAMES = {"load", "loadstring", "dofile", "loadfile", "getfenv", "setfenv", "require", "module", "newproxy", "collectgarbage"}
CAP_PROBE = r"""
local p = {}
function p.probe(frame)
  local f = _G[frame.args[1]]
  if f == nil then return "ABSENT" end
  if type(f) == "table" then
    local ks = {}
    for k, _ in pairs(f) do ks[#ks + 1] = tostring(k) end
    table.sort(ks)
    return "TABLE:" .. table.concat(ks, ","):sub(1, 100)
  end
  if type(f) ~= "function" then return "TYPE:" .. type(f) end
  local out = {}
  -- debug.sethook-like: install a line hook and see whether it fires
  local n = 0
  local ok = pcall(f, function() n = n + 1 end, "l")
  local x = 0
  for i = 1, 5 do x = x + i end
  pcall(f)
  if ok and n > 0 then out[#out + 1] = "HOOK:" .. tostring(n) end
  -- io.open / loadstring / os.getenv-like
  local ok2, r2 = pcall(f, "/etc/hostname")
  if ok2 and type(r2) == "userdata" then out[#out + 1] = "FILE" end
  local ok3, r3 = pcall(f, "return 41 + 1")
  if ok3 and type(r3) == "function" then local ok4, v = pcall(r3); if ok4 and v == 42 then out[#out + 1] = "COMPILES" end end
  local ok5, r5 = pcall(f, "PATH")
  if ok5 and type(r5) == "string" and r5:find("/") then out[#out + 1] = "ENV" end
  if #out == 0 then return "NOTHING" end
  return table.concat(out, ",")
end
return p
"""


GENV_DATA = "return {r = table.concat({tostring(io ~= nil), tostring(os ~= nil and os.execute ~= nil), tostring(loadstring ~= nil), tostring(python ~= nil), tostring(getfenv ~= nil)}, ',')}"
GENV_MAIN = r"""
local p = {}
function p.plain(frame) return mw.loadData('Module:vfgd1').r end
function p.pushfalse(frame) _python_append_env(false); return mw.loadData('Module:vfgd2').r end
function p.pushnil(frame) _python_append_env(nil); return mw.loadData('Module:vfgd3').r end
function p.req(frame) _python_append_env(false); local ok, m = pcall(require, 'Module:vfgd4'); return ok and m.r or 'ERR' end
return p
"""


GENV_CALL = r"""
local p = {}
local function sees_host(x)
  if type(x) ~= "table" then return false end
  local ok, r = pcall(function()
    return (x.io ~= nil and x.io.open ~= nil) or (x.os ~= nil and x.os.execute ~= nil) or x.loadstring ~= nil or x.python ~= nil or x.getfenv ~= nil or x.dofile ~= nil
  end)
  return ok and r and true or false
end
local function bad(c)
  if sees_host(c) then return true end
  if type(c) == "table" then
    local mt = getmetatable(c)
    if type(mt) == "table" and sees_host(rawget(mt, "__index")) then return true end
  end
  return false
end
function p.call(frame)
  -- every function stored under the given field name anywhere in the environment (depth <= 3) is called with a fresh table;
  -- afterwards neither that table nor the result may give access to a host library
  local want = frame.args[1]
  local seen, hits, called = {}, {}, 0
  local function walk(t, depth, path)
    if seen[t] or depth > 3 then return end
    seen[t] = true
    for k, v in pairs(t) do
      if type(v) == "function" and k == want then
        local arg = {}
        local ok, r = pcall(v, arg)
        called = called + 1
        if bad(arg) or bad(r) then hits[#hits + 1] = path .. "." .. tostring(k) end
      elseif type(v) == "table" then
        walk(v, depth + 1, path .. "." .. tostring(k))
      end
    end
  end
  local roots = {package = package, mw = mw, string = string, table = table, os = os, math = math}
  if type(_G) == "table" then roots._G = _G end
  for name, t in pairs(roots) do if type(t) == "table" then walk(t, 0, name) end end
  if #hits > 0 then return "true " .. table.concat(hits, ",") end
  return "false called=" .. tostring(called)
end
return p
"""


def host_globals_not_passed(rep: C.Report) -> None:
    """Ob6: phase 1 of the sandbox bootstrap runs in the HOST Lua state, where `_G` is the unrestricted global table.  The code
    there may mention `_G` only as a key (`_G = true` in the name lists, env["_G"]) and in `setmetatable(_G, nil)`; any other
    use reads the host globals as a value (e.g. as the environment of a loader).  Facts from the current source (comments and
    strings stripped), finite z3 query; a hit is replayed: data modules loaded through mw.loadData / require after the
    environment stack has been tampered with through the whitelisted helpers must still see no host library."""
    ob = rep.add(C.Ob("Ob6 the bootstrap never hands the host's global table to sandboxed code", "z3 over facts read from the current Lua source (finite) + behavioural replay in the real sandbox", ["lua/_sandbox_phase1.lua (every use of _G)"], "all occurrences of the identifier _G outside comments and strings"))
    try:
        src = open(os.path.join(C.SRC, "lua", "_sandbox_phase1.lua")).read()
        code = re.sub(r"--\[\[.*?\]\]", "", src, flags=re.S)
        code = "\n".join(line.split("--")[0] for line in code.splitlines())
        code = re.sub(r'"(?:[^"\\\n]|\\.)*"|\'(?:[^\'\\\n]|\\.)*\'', '""', code)
        uses = []
        for m in re.finditer(r"(?<![A-Za-z0-9_.])_G(?![A-Za-z0-9_])", code):
            before = code[max(0, m.start() - 40) : m.start()]
            after = code[m.end() : m.end() + 20]
            line = code.count("\n", 0, m.start()) + 1
            if re.match(r"\s*=\s*(true|false)\b", after):
                kind = "key"
            elif re.search(r"setmetatable\(\s*$", before) and re.match(r"\s*,\s*nil\s*\)", after):
                kind = "drop-metatable"
            else:
                kind = "value"
            uses.append((line, kind))
        ob.samples.append({"uses_of__G": uses})
        s_ = z3.Solver()
        i = z3.Int("i")
        is_value = z3.Function("is_value", z3.IntSort(), z3.BoolSort())
        for k, (_, kind) in enumerate(uses):
            s_.add(is_value(k) == (kind == "value"))
        s_.add(i >= 0, i < len(uses), is_value(i))
        r = str(s_.check()) if uses else "unsat"
        ob.queries = ob.paths = ob.conditions = 1
        if r == "unsat":
            ob.verdict = C.DISCHARGED
            ob.confirmed_conditions = 1
            return
        hit = uses[s_.model()[i].as_long()]
        from vf.wtpfix import new_ctx, close

        w = new_ctx(modules={"vfg": GENV_MAIN, "vfgd1": GENV_DATA, "vfgd2": GENV_DATA, "vfgd3": GENV_DATA, "vfgd4": GENV_DATA})
        res = {}
        for fn in ("plain", "pushfalse", "pushnil", "req"):
            w.start_page("T" + fn)
            try:
                res[fn] = w.expand("{{#invoke:vfg|%s}}" % fn)
            except Exception as e:  # noqa: BLE001
                res[fn] = f"EXC {type(e).__name__}"
        close(w)
        # the function of the bootstrap that uses _G as a value, if it has a name: find it in the sandbox environment under
        # that field name and call it
        for ln, kind in uses:
            if kind != "value":
                continue
            field = None
            for prev in reversed(code.splitlines()[:ln]):
                m2 = re.search(r"function\s+([A-Za-z_][\w.:]*)\s*\(", prev) or re.search(r"([A-Za-z_][\w.]*)\s*=\s*function\s*\(", prev)
                if m2:
                    field = re.split(r"[.:]", m2.group(1))[-1]
                    break
            if not field:
                continue
            w = new_ctx(modules={"vfcall": GENV_CALL})
            w.start_page("Tcall")
            try:
                res["call:" + field] = w.expand("{{#invoke:vfcall|call|%s}}" % field)
            except Exception as e:  # noqa: BLE001
                res["call:" + field] = f"EXC {type(e).__name__}"
            close(w)
        ob.samples.append({"replay": res})
        leaks = {k: v for k, v in res.items() if "true" in v}
        if leaks:
            k, v = sorted(leaks.items())[0]
            if k.startswith("call:"):
                v_ = rep.violation(f"expand('{{{{#invoke:vfcall|call|{k[5:]}}}}}'): a module calls the environment's function(s) named {k[5:]!r} with a fresh table", f"afterwards the table (or its metatable's __index) gives access to host libraries - io.open / os.execute / loadstring / python / getfenv - through {v[5:]}; _sandbox_phase1.lua uses the host's _G as a value inside that function", {"field": k[5:]})
            else:
                v_ = rep.violation(f"expand('{{{{#invoke:vfg|{k}}}}}') with a data module that reports whether io / os.execute / loadstring / python / getfenv are visible", f"a module loaded by the sandbox sees host libraries (io, os.execute, loadstring, python, getfenv = {v}); _sandbox_phase1.lua:{hit[0]} uses the host's _G as a value", {"line": hit[0]})
            ob.verdict = C.VIOLATED if v_.known is None else C.KNOWN
            ob.confirmed_conditions = 1
        else:
            ob.detail = f"_G is used as a value at _sandbox_phase1.lua:{hit[0]} but the probes see no host library ({res}) -> inconclusive"
    except Exception as e:  # noqa: BLE001
        ob.detail += f"{type(e).__name__}: {e}"


def env_whitelist(rep: C.Report) -> None:
    """Ob5: no entry of the sandbox environment is (an alias of) a host capability.  Facts read from the current Lua source:
    env["k"] = v assignments inside _lua_reset_env, and `local a = <expr>` aliases; a value is a host capability if, after
    resolving aliases, it is io.* / os.* / package.* / debug.* / python.* (except the five documented harmless functions), one
    of load/loadstring/dofile/loadfile/getfenv/setfenv/..., or one of those tables itself.  Finite z3 query over the exported
    keys; a hit is replayed in the real sandbox by a behavioural probe (does the exported function install a hook, open a
    file, compile code, read the host environment?)."""
    ob = rep.add(C.Ob("Ob5 the sandbox environment exports no (alias of a) host capability", "z3 over facts read from the current Lua source (finite) + behavioural replay in the real sandbox", ["lua/_sandbox_phase1.lua:_lua_reset_env"], "all env[...] assignments, aliases resolved transitively"))
    try:
        src = open(os.path.join(C.SRC, "lua", "_sandbox_phase1.lua")).read()
        code = "\n".join(line.split("--")[0] for line in src.splitlines())
        exports = re.findall(r'env\["([A-Za-z_][A-Za-z0-9_]*)"\]\s*=\s*([A-Za-z_][A-Za-z0-9_.]*)', code)
        aliases = dict(re.findall(r"^\s*local\s+([A-Za-z_][A-Za-z0-9_]*)\s*=\s*([A-Za-z_][A-Za-z0-9_.]*)\s*$", code, flags=re.M))
        # names defined as Lua functions or table constructors are not aliases
        defined = set(re.findall(r"function\s+([A-Za-z_][A-Za-z0-9_]*)\s*\(", code)) | set(re.findall(r"^\s*local\s+([A-Za-z_][A-Za-z0-9_]*)\s*=\s*\{", code, flags=re.M))
        if not exports:
            ob.verdict, ob.detail = C.NOT_ENCODABLE, "no env[...] assignments found"
            return

        def resolve(v, depth=0):
            while v in aliases and v not in defined and depth < 10:
                v = aliases[v]
                depth += 1
            return v

        def capability(expr):
            if expr in ALLOWED_HOST_EXPRS:
                return False
            root = expr.split(".")[0]
            return root in HOST_ROOTS or expr in HOST_NAMES

        keys = [k for k, _ in exports]
        resolved = {k: resolve(v) for k, v in exports}
        # "env" itself as _G is the sandbox table, `env["_G"] = env`
        caps = {k: resolved[k] for k in keys if resolved[k] != "env" and capability(resolved[k]) and k not in ("require",)}
        i = z3.Int("i")
        s = z3.Solver()
        s.add(i >= 0, i < len(keys))
        s.add(z3.Or(*[i == keys.index(k) for k in caps]) if caps else z3.BoolVal(False))
        r = str(s.check())
        ob.queries = ob.paths = ob.conditions = 1
        ob.samples.append({"exported_keys": len(keys), "resolved_host_expressions": {k: v for k, v in resolved.items() if "." in v or v in HOST_NAMES}, "capabilities": caps})
        if r == "unsat":
            ob.verdict = C.DISCHARGED
            ob.confirmed_conditions = 1
            return
        key = keys[s.model()[i].as_long()]
        from vf.wtpfix import new_ctx, close

        w = new_ctx(modules={"vfcap": CAP_PROBE})
        w.start_page("T")
        try:
            got = w.expand("{{#invoke:vfcap|probe|%s}}" % key)
        except Exception as e:  # noqa: BLE001
            got = f"EXC {type(e).__name__}"
        close(w)
        ob.samples.append({"z3_witness": key, "resolves_to": resolved[key], "behavioural_probe": got})
        if got.startswith(("HOOK", "FILE", "COMPILES", "ENV", "TABLE")) or any(t in got for t in ("HOOK", "FILE", "COMPILES", "ENV")):
            v = rep.violation(f"Lua global {key} inside #invoke (bound to host {resolved[key]})", f"sandboxed code holds a host capability: probe result {got}", {"key": key})
            ob.verdict = C.VIOLATED if v.known is None else C.KNOWN
            ob.confirmed_conditions = 1
        else:
            ob.detail = f"env[{key!r}] resolves to host expression {resolved[key]!r} but the behavioural probe shows nothing ({got}) -> inconclusive"
    except Exception as e:  # noqa: BLE001
        ob.detail += f"{type(e).__name__}: {e}"


MT_WALK = r"""
local p = {}
function p.list(frame)
  -- every userdata reachable from the environment (tables to depth 3, the frame included): is its metatable visible?
  local seen, out = {}, {}
  local function walk(t, depth, path)
    if seen[t] or depth > 3 then return end
    seen[t] = true
    for k, v in pairs(t) do
      if type(v) == "userdata" then
        local ok, mt = pcall(getmetatable, v)
        out[#out + 1] = path .. "." .. tostring(k) .. "=" .. ((ok and type(mt) == "table") and "VISIBLE" or "hidden")
      elseif type(v) == "table" then
        walk(v, depth + 1, path .. "." .. tostring(k))
      end
    end
  end
  walk(_G, 0, "_G")
  walk(frame, 0, "frame")
  table.sort(out)
  return table.concat(out, ";")
end
function p.poison(frame)
  for k, v in pairs(_G) do
    if type(v) == "userdata" then
      local mt = getmetatable(v)
      if type(mt) == "table" then
        local ok = pcall(rawset, mt, "__tostring", function() return "HIJACKED" end)
        return ok and "poisoned" or "refused"
      end
    end
  end
  return "nothing to poison"
end
function p.look(frame)
  for k, v in pairs(_G) do
    if type(v) == "userdata" then return tostring(v) end
  end
  return "none"
end
return p
"""


def python_metatable_hidden(rep: C.Report) -> None:
    """Ob9: lupa gives every Python object one shared metatable holding the C functions behind calls, attribute access and
    garbage collection.  Sandboxed code has getmetatable() and rawset(); if the table is visible it can be rewritten, which
    redirects the calls the HOST part of the sandbox makes to Python (module loader, environment stack) and stays in place
    for every later invocation and page.  Facts from the live sandbox (a module walks its environment and frame, depth 3):
    the userdata objects reachable and whether getmetatable() returns a table for them; finite z3 query 'some reachable
    userdata has a visible metatable'; a hit is replayed: one page rewrites __tostring, a later page observes it."""
    ob = rep.add(C.Ob("Ob9 the metatable shared by all Python objects is not reachable from sandboxed code", "z3 over facts read from the live sandbox (finite) + behavioural replay across two pages", ["lua/_sandbox_phase1.lua", "lupa: Python-object metatable"], "every userdata reachable from the environment and the frame to table depth 3"))
    try:
        from vf.wtpfix import new_ctx, close

        w = new_ctx(modules={"vfmt": MT_WALK})
        w.start_page("T1")
        listing = w.expand("{{#invoke:vfmt|list}}")
        objs = [x.split("=") for x in listing.split(";") if "=" in x]
        ob.samples.append({"userdata_reachable": len(objs), "visible": [n for n, v in objs if v == "VISIBLE"][:8]})
        if not objs:
            close(w)
            ob.verdict, ob.detail = C.NOT_ENCODABLE, f"no userdata found in the environment walk: {listing[:120]!r}"
            return
        s_ = z3.Solver()
        i = z3.Int("i")
        vis = z3.Function("visible", z3.IntSort(), z3.BoolSort())
        for k, (_, v) in enumerate(objs):
            s_.add(vis(k) == (v == "VISIBLE"))
        s_.add(i >= 0, i < len(objs), vis(i))
        r = str(s_.check())
        ob.queries = ob.paths = ob.conditions = 1
        if r == "unsat":
            close(w)
            ob.verdict = C.DISCHARGED
            ob.confirmed_conditions = 1
            return
        name = objs[s_.model()[i].as_long()][0]
        before = w.expand("{{#invoke:vfmt|look}}")
        did = w.expand("{{#invoke:vfmt|poison}}")
        w.start_page("T2")
        after = w.expand("{{#invoke:vfmt|look}}")
        close(w)
        ob.samples.append({"replay": {"before": before[:60], "poison": did, "later page": after[:60]}})
        if after == "HIJACKED" and before != "HIJACKED":
            v_ = rep.violation("page T1: expand('{{#invoke:vfmt|poison}}') (getmetatable(<a Python helper>), rawset(mt, '__tostring', f)); page T2: expand('{{#invoke:vfmt|look}}') (tostring(<a Python helper>))", f"the later page sees {after!r}: the metatable lupa shares between ALL Python objects (__call, __index, __newindex, __gc) is readable and writable from sandboxed code (reachable e.g. as getmetatable({name})), so a module can redirect every call the host side of the sandbox makes to Python, for all later invocations and pages", {"object": name})
            ob.verdict = C.VIOLATED if v_.known is None else C.KNOWN
            ob.confirmed_conditions = 1
        else:
            ob.detail = f"getmetatable({name}) is a table but the rewrite is not observable on a later page ({did}, {after[:40]!r}) -> inconclusive"
    except Exception as e:  # noqa: BLE001
        ob.detail += f"{type(e).__name__}: {e}"


LIB_WALK = r"""
local p = {}
function p.list(frame)
  local out = {}
  for _, lib in ipairs({"os", "io", "debug", "package"}) do
    local t = _G[lib]
    if type(t) == "table" then
      for k, v in pairs(t) do out[#out + 1] = lib .. "." .. tostring(k) .. "=" .. type(v) end
    elseif t ~= nil then
      out[#out + 1] = lib .. "=" .. type(t)
    end
  end
  table.sort(out)
  return table.concat(out, ";")
end
function p.getenv(frame)
  local ok, r = pcall(function() return os.getenv("VERIF_C06_SECRET") end)
  return ok and tostring(r) or "ERR"
end
return p
"""
# what Scribunto documents as available (https://www.mediawiki.org/wiki/Extension:Scribunto/Lua_reference_manual): everything
# else of these four host libraries is a host capability in the sense of the property
SAFE_LIB = {"os": {"clock", "date", "difftime", "time"}, "io": set(), "debug": {"traceback"}, "package": {"loaded", "loaders", "preload", "seeall"}}


def library_members(rep: C.Report) -> None:
    """Ob10: the members of the os / io / debug / package tables a module actually sees (listed by a module running in the real
    sandbox) are among those the Scribunto reference documents; z3 finite query 'some visible member is not in the safe set';
    a hit is shown behaviourally where that is harmless (os.getenv returns a variable set for the test), otherwise the
    visible host function is reported as it is."""
    ob = rep.add(C.Ob("Ob10 the os / io / debug / package tables a module sees hold only the members the Scribunto reference documents", "z3 over facts read from the live sandbox (finite) + behavioural replay", ["lua/_sandbox_phase1.lua:_lua_reset_env"], "every member of the four library tables as seen by a module"))
    try:
        from vf.wtpfix import new_ctx, close

        os.environ["VERIF_C06_SECRET"] = "s3cr3t"
        w = new_ctx(modules={"vflib": LIB_WALK})
        w.start_page("T")
        listing = w.expand("{{#invoke:vflib|list}}")
        members = [x.split("=")[0] for x in listing.split(";") if "=" in x]
        ob.samples.append({"visible_members": members})
        if not members:
            close(w)
            ob.verdict, ob.detail = C.NOT_ENCODABLE, f"library listing empty: {listing[:100]!r}"
            return
        s_ = z3.Solver()
        i = z3.Int("i")
        unsafe = z3.Function("unsafe", z3.IntSort(), z3.BoolSort())
        for k, m in enumerate(members):
            lib, _, name = m.partition(".")
            s_.add(unsafe(k) == (name not in SAFE_LIB.get(lib, set())))
        s_.add(i >= 0, i < len(members), unsafe(i))
        r = str(s_.check())
        ob.queries = ob.paths = ob.conditions = 1
        if r == "unsat":
            close(w)
            ob.verdict = C.DISCHARGED
            ob.confirmed_conditions = 1
            return
        extra = [m for m in members if m.partition(".")[2] not in SAFE_LIB.get(m.partition(".")[0], set())]
        got = w.expand("{{#invoke:vflib|getenv}}") if "os.getenv" in extra else ""
        close(w)
        what = f"a module sees {extra} in addition to the documented members"
        if got == "s3cr3t":
            what += "; os.getenv('VERIF_C06_SECRET') returns the host process's environment variable"
        v_ = rep.violation("expand('{{#invoke:vflib|list}}'): a module lists the members of its os / io / debug / package tables" + (" and reads an environment variable" if got == "s3cr3t" else ""), what, {"extra": extra})
        ob.verdict = C.VIOLATED if v_.known is None else C.KNOWN
        ob.confirmed_conditions = 1
    except Exception as e:  # noqa: BLE001
        ob.detail += f"{type(e).__name__}: {e}"


def invoke_probe(fn: str, arg: str) -> str:
    from vf.wtpfix import new_ctx, close

    ctx = new_ctx(modules={"vfprobe": PROBE})
    ctx.start_page("T")
    try:
        return ctx.expand("{{#invoke:vfprobe|%s|%s}}" % (fn, arg))
    except Exception as e:  # noqa: BLE001
        return f"EXC {type(e).__name__}: {e}"
    finally:
        close(ctx)


def invoke_eval() -> str:
    from vf.wtpfix import new_ctx, close

    ctx = new_ctx(modules={"vfprobe2": "local p = {}\nfunction p.f(frame) local ok, r = pcall(function() return python.eval('1+1') end) if ok then return 'GOT' .. tostring(r) end return 'DENIED' end\nreturn p"})
    ctx.start_page("T")
    try:
        return ctx.expand("{{#invoke:vfprobe2|f}}")
    except Exception as e:  # noqa: BLE001
        return f"EXC {type(e).__name__}"
    finally:
        close(ctx)


def run(rep: C.Report) -> None:
    quick = C.tier() == "quick"
    rep.explanation = (
        "Only the Python-side gates are decided - the Lua VM cannot be executed symbolically: (1) lua_loader's path sanitiser, run by CrossHair with the package directory replaced by a recording path object: "
        "for every module name up to the bound, every probed path is relative and has no '..' component; (2) the attribute filter (closure sliced from initialize_lua): underscore names, non-str names and every attribute of a "
        "context-bound functools.partial helper are refused; (3) a finite z3 query over the retained-module table and block list read from the current Lua source and the package.loaded of a fresh runtime: no capability library "
        "is both kept loaded by the host and served by require(); (4) an AST fact about the LuaRuntime construction. Counterexamples are replayed through the real sandbox (#invoke of a probe module)."
    )
    rep.assumptions += ["Lua replays boot the sandbox with a stub for the absent Scribunto ustring submodule", "pathlib join semantics: an absolute right operand discards the left one; '..' components are not resolved lexically"]
    rep.outside += ["everything executed inside the Lua VM beyond Ob5/Ob6/Ob9: closures capturing host values, what the exported Lua functions do internally - only direct (aliased) exports of host capabilities are decided", "symlinks below the package directory"]
    rep.trusted += ["CrossHair 0.0.110", "z3", "vf/slicer.py", "lupa (fresh runtime for package.loaded)"]
    try:
        src = open(H).read() + "\n" + gen(quick)
        xh.check_harness(
            rep,
            H,
            {
                "^loader_": dict(name="Ob1 lua_loader never probes a path outside the Lua package directory", functions=["luaexec.py:lua_loader"], bounds=f"module names of 1..3 symbolic chars over {{. / : space a newline backslash}}" + ("" if quick else ", 4..5 over {. / a}") + f"; runs of 2..{5 if quick else 7} dots, slashes or colons followed by {2 if quick else 3} symbolic chars over {{. / a}}"),
                "^attr_history": dict(name="Ob8 the attribute filter's decision does not depend on earlier requests (no per-name memo across objects)", functions=["luaexec.py:initialize_lua.filter_attribute_access with the state it closes over (AST slice, re-created per case)"], bounds="two consecutive requests: name <= 4 symbolic chars (full Unicode), first on a tuple / exception / function, second on a context-bound helper; setting flags symbolic"),
                "^jsonconv": dict(name="Ob7 mw.text.jsonDecode hands only Lua tables and scalars to Lua (no Python dict / list at any depth)", functions=["luaexec.py:mw_text_jsondecode.recurse (AST slice, lupa's table_from replaced by a shallow stub)"], bounds="6 nested JSON shapes x 4 key spellings x 4 key spellings x flags 0..3 (solver-driven case split)"),
                "^attr_filter": dict(name="Ob2 attribute filter refuses underscore names, non-str names and attributes of context-bound helpers", functions=["luaexec.py:initialize_lua.filter_attribute_access (AST slice)"], bounds="attribute name <= 4 symbolic chars (full Unicode); object kind, setting flag, str/bytes symbolic"),
            },
            timeout=120 if quick else 600,
            src=src,
            batch=2,
            twins=False,
        )
    except Exception as e:  # noqa: BLE001
        rep.add(C.Ob("Ob1/Ob2 gates", "E1 CrossHair", [], "", verdict=C.NOT_ENCODABLE, detail=f"{type(e).__name__}: {e}"))
    runtime_facts(rep)
    env_whitelist(rep)
    host_globals_not_passed(rep)
    python_metatable_hidden(rep)
    library_members(rep)


def replay(r: dict) -> int:
    print(r)
    return 0
