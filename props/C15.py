"""C15 - nowiki content and comments are inert and recoverable (kernels: E1; N-cookie pass-through: E3)."""
from __future__ import annotations

import ast
import os
import re
import time

import z3

from vf import astpaths as AP
from vf import common as C
from vf import xh

H = os.path.join(C.VERIF, "harness", "C15_nowiki.py")


def gen(quick: bool) -> str:
    out = []
    LN = 1 if quick else 3
    for L in range(0, (2 if quick else 3) + 1):
        body = " and ".join(f"c[{j}] in ALPHA" for j in range(L)) or "True"
        out.append(f'''
def quote_inert_{L}(c: str) -> bool:
    """
    pre: len(c) == {L}
    pre: {body}
    post: _
    """
    return quote_ok(c)


def replay_quote_inert_{L}(c):
    return _api_nowiki(c)
''')
    for L in range(0, LN + 1):
        n = 8 + L + 9
        body = " and ".join(f"doc[{8 + j}] in ALPHA" for j in range(L)) or "True"
        out.append(f'''
def cookie_{L}(doc: str) -> bool:
    """
    pre: len(doc) == {n}
    pre: pinned(doc, 0, NW_OPEN) and pinned(doc, {8 + L}, NW_CLOSE)
    pre: {body}
    post: _
    """
    return one_cookie(doc, {L})


def replay_cookie_{L}(doc):
    return _api_nowiki(doc[8:{8 + L}])
''')
    # content holding a self-closing nowiki tag (help pages that explain the tag): x <nowiki/> y with symbolic x, y;
    # tags concrete, fillers symbolic one-character strings (pinned symbolic tag characters make the (?i) patterns fork)
    for tag, inner in (() if quick else (("slash", "<nowiki/>"), ("slashsp", "<nowiki />"))):
        out.append(f'''
def cookie_inner_{tag}(x: str, y: str) -> bool:
    """
    pre: len(x) == 1 and len(y) == 1 and x[0] in ALPHA and y[0] in ALPHA
    post: _
    """
    c = x + {inner!r} + y
    return one_cookie(NW_OPEN + c + NW_CLOSE, len(c))


def replay_cookie_inner_{tag}(x, y):
    return _api_nowiki(x + {inner!r} + y)
''')
    for L in range(0, (1 if quick else 2) + 1):
        n = 1 + 8 + L + 9 + 1
        body = " and ".join([f"doc[{9 + j}] in ALPHA" for j in range(L)] + ['doc[0] in "a \\n|=*"', f'doc[{n - 1}] in "a \\n|="'])
        out.append(f'''
def ctxt_{L}(doc: str) -> bool:
    """
    pre: len(doc) == {n}
    pre: pinned(doc, 1, NW_OPEN) and pinned(doc, {9 + L}, NW_CLOSE)
    pre: {body}
    post: _
    """
    return in_context(doc, {L})


def replay_ctxt_{L}(doc):
    return replay_nowiki_in_context(doc[9:{9 + L}], doc[0], doc[{n - 1}])
''')
    for L in range(0, (1 if quick else 2) + 1):
        body = " and ".join(f'c[{j}] in ALPHA + " "' for j in range(L)) or "True"
        out.append(f'''
def magicn_{L}(c: str, bol: bool, in_section: bool) -> bool:
    """
    pre: len(c) == {L}
    pre: {body}
    post: _
    """
    return magic_n_step(c, bol, in_section)


def replay_magicn_{L}(c, bol, in_section):
    return replay_magic_n(c, bol, in_section)
''')
    for L in range(1, (1 if quick else 2) + 1):
        body = " and ".join(f"doc[{8 + j}] in MARKUP" for j in range(L))
        out.append(f'''
def parsen_{L}(doc: str) -> bool:
    """
    pre: len(doc) == {8 + L + 9}
    pre: pinned(doc, 0, NW_OPEN) and pinned(doc, {8 + L}, NW_CLOSE)
    pre: {body}
    post: _
    """
    return parse_text_only(doc, {L})


def replay_parsen_{L}(doc):
    return replay_parse_text_only(doc, {L})
''')
    M = 1 if quick else 2
    for la in range(0, M + 1):
        for lx in range(0, M + 1):
            for lb in range(0, M + 1):
                n = la + 4 + lx + 3 + lb
                holes = [i for i in range(la)] + [la + 4 + i for i in range(lx)] + [la + 4 + lx + 3 + i for i in range(lb)]
                body = " and ".join(f"doc[{i}] in CM" for i in holes) or "True"
                out.append(f'''
def cmt_{la}_{lx}_{lb}(doc: str) -> bool:
    """
    pre: len(doc) == {n}
    pre: pinned(doc, {la}, "<!--") and pinned(doc, {la + 4 + lx}, "-->")
    pre: {body}
    post: _
    """
    return comment_gone(doc, {la}, {lx}, {lb})


def replay_cmt_{la}_{lx}_{lb}(doc):
    return replay_comment_removed(doc[:{la}], doc[{la + 4}:{la + 4 + lx}], doc[{la + 4 + lx + 3}:])
''')
    return "\n".join(out)


def n_cookie_passthrough(rep: C.Report) -> None:
    """Ob3 (E3): wherever the expander dispatches on the cookie kind, the branch for kind 'N' does nothing but re-emit
    the cookie character (no recursive expansion, no re-encoding)."""
    ob = rep.add(C.Ob("Ob3 N cookies pass through expand_args / expand_recurse untouched", "E3 AST path encoder + z3", [], "all syntactic paths of the two cookie loops, unbounded input"))
    try:
        tree = ast.parse(open(os.path.join(C.SRC, "core.py")).read())
        targets = [(q, f) for q, f in AP.functions(tree) if q[-1] in ("expand_args", "expand_recurse") and "expand" in q]
        if len(targets) < 2:
            ob.verdict, ob.detail = C.NOT_ENCODABLE, f"found {[q for q, _ in targets]}"
            return
        REC = {"expand_recurse", "expand_args", "expand_parserfn", "invoke_fn", "call_parser_function", "nowiki_quote"}
        bad = []
        for q, fn in targets:
            ob.functions.append("core.py:" + ".".join(q) + f"@{fn.lineno}")

            def branch(test, pol):
                if isinstance(test, ast.Compare) and isinstance(test.left, ast.Name) and test.left.id == "kind" and len(test.ops) == 1 and isinstance(test.ops[0], ast.Eq) and isinstance(test.comparators[0], ast.Constant) and test.comparators[0].value == "N":
                    return {"inN": 1} if pol else None
                return None

            def delta(n):
                if isinstance(n, ast.Call):
                    f = n.func
                    if isinstance(f, ast.Name) and f.id in REC:
                        return {"work": 1}
                    if isinstance(f, ast.Attribute) and f.attr in ("_save_value", "_encode", "_unexpanded_template", "_unexpanded_arg", "_unexpanded_link", "_unexpanded_extlink"):
                        return {"work": 1}
                    if isinstance(f, ast.Attribute) and f.attr == "append" and isinstance(f.value, ast.Name) and f.value.id == "parts" and n.args and isinstance(n.args[0], ast.Name) and n.args[0].id == "ch":
                        return {"emit": 1}
                    if isinstance(f, ast.Attribute) and f.attr == "append" and isinstance(f.value, ast.Name) and f.value.id == "parts":
                        a0 = n.args[0] if n.args else None
                        if isinstance(a0, ast.Subscript) and isinstance(a0.value, ast.Name) and a0.value.id == "coded":
                            return None  # literal text between two cookies
                        return {"other_emit": 1}
                return None

            enc = AP.Encoder(fn, ["inN", "work", "emit", "other_emit"], delta, branch=branch).run()
            seen_n = False
            for ex in enc.exits:
                if ex.base is None:
                    continue  # only per-iteration exits of the cookie loop
                d = {k: ex.counters[k] - ex.base[k] for k in ex.counters}
                s = z3.Solver()
                s.add(ex.guard, d["inN"] >= 1, z3.Or(d["work"] != 0, d["emit"] != 1, d["other_emit"] != 0))
                r = str(s.check())
                s2 = z3.Solver()
                s2.add(ex.guard, d["inN"] >= 1)
                if str(s2.check()) == "sat":
                    seen_n = True
                ob.queries += 2
                ob.paths += 1
                ob.conditions += 1
                if r == "unsat":
                    ob.confirmed_conditions += 1
                else:
                    bad.append((".".join(q), ex.kind, ex.line))
            if not seen_n:
                bad.append((".".join(q), "no kind == 'N' branch", fn.lineno))
        ob.samples.append({"query": "iteration passes the kind=='N' branch and (calls an expander/encoder or does not emit exactly the cookie character)", "violating_exits": bad})
        if not bad and not C.distrust():
            ob.verdict = C.DISCHARGED
            return
        # replay
        gen0, _ = xh.prepare(H)
        mod = xh.load(gen0)
        hits = []
        for c in ["{{a}}", "[[x]]", "'''b'''", "{{{1}}}", "<b>", "a|b", "=", "{{#if:1|y}}"]:
            for w in ["%s", "{{t|%s}}", "[[l|%s]]", "{{#if:1|%s}}", "{{{u|%s}}}"]:
                from wikitextprocessor import Wtp

                x = Wtp(quiet=True, quiet_output=True)
                x.add_page("Template:t", 10, "{{{1}}}")
                x.add_page("Template:a", 10, "EXPANDED")
                x.start_page("T")
                doc = w % ("<nowiki>" + c + "</nowiki>")
                try:
                    e = x.expand(doc)
                except Exception as ex_:  # noqa: BLE001
                    e = f"raises {type(ex_).__name__}"
                q = "".join(mod._nowiki_map.get(ch, ch) for ch in c)
                if q not in e:
                    hits.append((doc, e))
        if hits:
            doc, e = hits[0]
            v = rep.violation("expand(" + repr(doc) + ")", f"nowiki content is not passed through inert: result {e!r}", {"doc": doc})
            ob.verdict = C.VIOLATED if v.known is None else C.KNOWN
        else:
            ob.detail = f"path(s) {bad[:3]} do more than re-emit the cookie, but the embedding catalogue shows no difference -> inconclusive"
    except Exception as e:  # noqa: BLE001
        ob.detail += f"{type(e).__name__}: {e}"


def preprocess_order(rep: C.Report) -> None:
    """Ob6: in preprocess_text the paired-nowiki pass runs before the self-closing one (a self-closing tag inside a nowiki body
    is content); z3 shows the order matters, the AST gives the order, a violation is replayed through expand()."""
    from vf import passes as PS

    ob = rep.add(C.Ob("Ob6 preprocess_text: paired nowiki bodies are saved before self-closing nowiki tags are replaced", "E2 z3 (regex overlap) + AST order", ["core.py:Wtp.preprocess_text"], "all strings (no length bound) for the overlap query"))
    try:
        tree = ast.parse(open(os.path.join(C.SRC, "core.py")).read())
        fns = [f for q, f in AP.functions(tree) if q[-1] == "preprocess_text"]
        if len(fns) != 1:
            ob.verdict, ob.detail = C.NOT_ENCODABLE, "preprocess_text not found"
            return
        ps = PS.passes(fns[0], tree)
        paired = PS.find_pass(ps, ["<nowiki>x</nowiki>"], ["<nowiki/>"])
        selfc = PS.find_pass(ps, ["<nowiki/>", "<nowiki />"], ["<nowiki>x</nowiki>"])
        comment = PS.find_pass(ps, ["<!--x-->"], ["<nowiki/>"])
        if not (paired and selfc and comment):
            ob.verdict, ob.detail = C.NOT_ENCODABLE, f"passes not identified (paired={bool(paired)} self-closing={bool(selfc)} comment={bool(comment)})"
            return
        problems = []
        for a, b, an, bn, doc in [(paired, selfc, "paired nowiki", "self-closing nowiki", "<nowiki>a<nowiki/>b</nowiki>"), (paired, comment, "paired nowiki", "comment removal", "<nowiki>a<!--c-->b</nowiki>")]:
            r, wit = PS.order_matters(a, b)
            ob.queries += 1
            ob.paths += 1
            ob.conditions += 1
            ordered = a.line < b.line
            ob.samples.append({"precedence": f"{an} before {bn}", "order_matters(z3)": r, "overlap_witness": wit, "ast_order_ok": ordered})
            if ordered or r == "unsat":
                ob.confirmed_conditions += 1
            else:
                problems.append((f"{bn} runs before {an}", doc))
        if not problems and not C.distrust():
            ob.verdict = C.DISCHARGED
            return
        gen0, _ = xh.prepare(H)
        mod = xh.load(gen0)
        for why, doc in problems:
            sig, bad, what = mod._api_nowiki(doc[len("<nowiki>") : -len("</nowiki>")])
            if bad:
                v = rep.violation(sig, f"{why}: {what}", {"doc": doc})
                ob.verdict = C.VIOLATED if v.known is None else C.KNOWN
                return
        ob.detail = f"{[p[0] for p in problems]} but the replay documents stay inert -> inconclusive"
    except Exception as e:  # noqa: BLE001
        ob.detail += f"{type(e).__name__}: {e}"


def fixpoint_loop(fn) -> bool:
    """the placeholder substitution of _finalize_expand sits in a `while` that only ends when a pass changes nothing"""
    ok = False
    for loop in [n for n in ast.walk(fn) if isinstance(n, ast.While)]:
        has_sub = any(isinstance(c, ast.Call) and isinstance(c.func, ast.Attribute) and c.func.attr == "sub" for c in ast.walk(loop))
        if not has_sub:
            continue
        exits = [n for n in ast.walk(loop) if isinstance(n, (ast.Break, ast.Return))]
        # every exit must sit under an `if <a> == <b>` (before/after comparison); an unconditional `while True`
        guarded = True
        for ex in exits:
            parent_if = [i for i in ast.walk(loop) if isinstance(i, ast.If) and any(x is ex for x in ast.walk(i))]
            if not any(isinstance(i.test, ast.Compare) and isinstance(i.test.ops[0], ast.Eq) for i in parent_if):
                guarded = False
        is_forever = isinstance(loop.test, ast.Constant) and loop.test.value is True
        cmp_test = isinstance(loop.test, ast.Compare) and isinstance(loop.test.ops[0], (ast.NotEq, ast.IsNot))
        if (is_forever and exits and guarded) or cmp_test:
            ok = True
    return ok


def finalize_fn():
    tree = ast.parse(open(os.path.join(C.SRC, "core.py")).read())
    fns = [f for q, f in AP.functions(tree) if q[-1] == "_finalize_expand"]
    return fns[0] if len(fns) == 1 else None


def comment_token_language(rep: C.Report) -> None:
    """Ob9: the comment-removing pass of preprocess_text deletes exactly the comments: with leftmost-shortest matching the
    strings it can delete at a position are the SHORTEST members of its pattern's language.  z3 (regular languages, no
    length bound): shortest(L(pattern)) == (newline)? '<!--' u '-->' where '-->' does not occur earlier.  A witness of a
    difference is embedded in a document and replayed against the reference stripper."""
    import re as _re

    import z3

    from vf import passes as PS
    from vf import resym as R

    ob = rep.add(C.Ob("Ob9 the comment pass deletes exactly the closed comments (shortest-match language equals the comment grammar)", "E2 z3 regex (language equality of shortest matches, unbounded) + replay", ["core.py:Wtp.preprocess_text (comment pass)"], "all strings, no length bound"))
    try:
        tree = ast.parse(open(os.path.join(C.SRC, "core.py")).read())
        fns = [f for q, f in AP.functions(tree) if q[-1] == "preprocess_text"]
        ps = PS.passes(fns[0], tree) if len(fns) == 1 else []
        comment = PS.find_pass(ps, ["<!--x-->"], ["<nowiki/>"])
        if comment is None:
            ob.verdict, ob.detail = C.NOT_ENCODABLE, "comment pass not identified"
            return
        Lp = R.fullmatch_lang(comment.pattern, comment.flags)
        anyplus = z3.Concat(R.ALLCH, R.ANYSTAR)
        shortest = z3.Intersect(Lp, z3.Complement(z3.Concat(Lp, anyplus)))
        has_end = z3.Concat(R.ANYSTAR, z3.Re("-->"), R.ANYSTAR)
        X = z3.Intersect(z3.Concat(R.ANYSTAR, z3.Re("--")), z3.Complement(has_end))
        A = z3.Concat(z3.Option(z3.Re("\n")), z3.Re("<!--"), X, z3.Re(">"))
        x = z3.String("x")
        wit = None
        for label, lhs, rhs in (("a deletable span that is not a closed comment", shortest, A), ("a closed comment that is not deleted as a whole", A, shortest)):
            sol = z3.Solver()
            sol.set("timeout", 60000)
            sol.add(z3.InRe(x, lhs), z3.Not(z3.InRe(x, rhs)), z3.InRe(x, R.NOMARK))
            r = str(sol.check())
            ob.queries += 1
            ob.paths += 1
            ob.conditions += 1
            if r == "unsat":
                ob.confirmed_conditions += 1
            elif r == "sat":
                wit = (label, R.z3str_to_py(sol.model().eval(x, model_completion=True).as_string()))
                break
            else:
                ob.detail += f"{label}: solver {r}; "
        ob.samples.append({"pattern": comment.pattern, "witness": wit})
        if wit is None and not ob.detail and not C.distrust():
            ob.verdict = C.DISCHARGED
            return
        from wikitextprocessor import Wtp

        w = Wtp(quiet=True, quiet_output=True)
        ref = lambda d: _re.sub(r"(?s)\n?<!--.*?-->", "", d)  # noqa: E731
        docs = ["top<!-- old -- > {{#expr:1+1}} -->level", "a<!---->b", "a\n<!-- x -->b", "a<!-- [[l]] --\n> ''i'' -->b"]
        if wit is not None:
            docs.insert(0, "x" + wit[1] + " ''y'' -->z")
        for d in docs:
            w.start_page("T")
            got = w.expand(d)
            w.start_page("T")
            want = w.expand(ref(d))
            if got != want:
                v = rep.violation("expand(" + repr(d) + ")", f"result {got!r}; with the closed comments deleted first the text expands to {want!r}" + (f" (z3 witness: {wit[0]}: {wit[1]!r})" if wit else ""), {"doc": d})
                ob.verdict = C.VIOLATED if v.known is None else C.KNOWN
                return
        ob.detail += "the comment pattern's shortest-match language differs from the comment grammar (or could not be decided), but the replay documents lose exactly their comments -> inconclusive"
    except R.Unsupported as e:
        ob.verdict, ob.detail = C.NOT_ENCODABLE, f"pattern not encodable: {e}"
    except Exception as e:  # noqa: BLE001
        ob.detail += f"{type(e).__name__}: {e}"


def nowiki_token_language(rep: C.Report) -> None:
    """Ob10: the pass that saves paired nowiki bodies takes, at each opening tag, exactly the text up to the FIRST closing tag:
    shortest(L(pattern)) == '<nowiki' ws* '>' c '</nowiki' ws* '>' (tag names in any case) where no closing tag occurs
    earlier.  z3 language equality (no length bound); if the pattern cannot be encoded (look-arounds) or differs, bodies that
    merely *begin* like the closing tag are replayed."""
    import z3

    from vf import passes as PS
    from vf import resym as R

    ob = rep.add(C.Ob("Ob10 the paired-nowiki pass takes exactly the text up to the first closing tag (shortest-match language equals the nowiki grammar)", "E2 z3 regex (language equality of shortest matches, unbounded) + replay", ["core.py:Wtp.preprocess_text (paired nowiki pass)"], "all strings, no length bound"))
    try:
        tree = ast.parse(open(os.path.join(C.SRC, "core.py")).read())
        fns = [f for q, f in AP.functions(tree) if q[-1] == "preprocess_text"]
        ps = PS.passes(fns[0], tree) if len(fns) == 1 else []
        paired = PS.find_pass(ps, ["<nowiki>x</nowiki>"], ["<nowiki/>"])
        wit = None
        if paired is None:
            ob.detail += "paired nowiki pass not identified; "
        else:
            try:
                Lp = R.fullmatch_lang(paired.pattern, paired.flags)
                ws = R.to_z3(r"\s*")
                opn = z3.Concat(R.to_z3("<nowiki", re.I), ws, z3.Re(">"))
                cls = z3.Concat(R.to_z3("</nowiki", re.I), ws, z3.Re(">"))
                anyplus = z3.Concat(R.ALLCH, R.ANYSTAR)
                shortest = z3.Intersect(Lp, z3.Complement(z3.Concat(Lp, anyplus)))
                # body followed by the closing tag, with no closing tag ending earlier
                tail = z3.Intersect(z3.Concat(R.ANYSTAR, cls), z3.Complement(z3.Concat(R.ANYSTAR, cls, anyplus)))
                A = z3.Concat(opn, tail)
                x = z3.String("x")
                for label, lhs, rhs in (("a saved span that is not a nowiki element up to its first closing tag", shortest, A), ("a nowiki element that is not saved as a whole", A, shortest)):
                    sol = z3.Solver()
                    sol.set("timeout", 60000)
                    sol.add(z3.InRe(x, lhs), z3.Not(z3.InRe(x, rhs)), z3.InRe(x, R.NOMARK))
                    r = str(sol.check())
                    ob.queries += 1
                    ob.paths += 1
                    ob.conditions += 1
                    if r == "unsat":
                        ob.confirmed_conditions += 1
                    elif r == "sat":
                        wit = (label, R.z3str_to_py(sol.model().eval(x, model_completion=True).as_string()))
                        break
                    else:
                        ob.detail += f"{label}: solver {r}; "
            except R.Unsupported as e:
                ob.detail += f"pattern not encodable ({e}); "
        ob.samples.append({"pattern": paired.pattern if paired else None, "witness": wit})
        if wit is None and not ob.detail and not C.distrust():
            ob.verdict = C.DISCHARGED
            return
        gen0, _ = xh.prepare(H)
        mod = xh.load(gen0)
        bodies = ["use </nowikis> here: {{foo}}", "a</nowiki-end>''b''", "x</NoWikiX>[[l]]", "p</nowiki q {{{1}}}", "<", "</", "</nowik>{{t}}", "a<nowiki>b"]
        if wit is not None and wit[1].lower().startswith("<nowiki") and "</nowiki" in wit[1].lower():
            bodies.insert(0, wit[1][wit[1].index(">") + 1 : wit[1].lower().rindex("</nowiki")])
        for c in bodies:
            sig, bad, what = mod._api_nowiki(c)
            if bad:
                v = rep.violation(sig, what + (f" (z3 witness: {wit[0]}: {wit[1]!r})" if wit else ""), {"c": c})
                ob.verdict = C.VIOLATED if v.known is None else C.KNOWN
                return
        ob.detail += "but nowiki bodies that begin like the closing tag stay inert -> inconclusive"
    except Exception as e:  # noqa: BLE001
        ob.detail += f"{type(e).__name__}: {e}"


def nowiki_parser_side(rep: C.Report) -> None:
    """Ob11: on the parse side the body of a nowiki element must reach the tree as ONE text token.  Fact (AST): the branch of
    magic_fn for kind 'N' consists of simple statements that call nothing but nowiki_quote and text_fn, text_fn exactly
    once.  If the branch does anything else (e.g. feeds the quoted body to the tokenizer), z3 decides for every alternative
    of the tokenizer's token pattern whether it can match inside a quoted body at all: Q = (unquoted character | entity)*
    is the image of nowiki_quote (read from its table), the query is  x in Q and x = u.t.v and t in L(alternative)  (for a
    `^` alternative: u empty or ending in a newline), once for any x and once for a multi-line x; no length bound.  The
    bodies so found (decoded) and a small fixed list are replayed: parse() must give a single text node that decodes to
    the body, and inside a list item / template argument / link / table cell the tree must be the one a plain-word body
    gives."""
    import z3

    from vf import resym as R

    ob = rep.add(C.Ob("Ob11 parse side: the quoted nowiki body reaches the tree as one text token (no tokenizer alternative is applied to it)", "AST fact; else E2 z3 regex (quoted-body language x token alternatives, unbounded) + replay", ["parser.py:magic_fn (kind N)", "parser.py:token_list", "common.py:_nowiki_map"], "every statement of the N branch; every alternative of the token pattern against every quoted body, no length bound"))
    try:
        tree = ast.parse(open(os.path.join(C.SRC, "parser.py")).read())
        fns = [f for q, f in AP.functions(tree) if q[-1] == "magic_fn"]
        if len(fns) != 1:
            ob.verdict, ob.detail = C.NOT_ENCODABLE, f"magic_fn found {len(fns)} times"
            return
        branches = [n for n in ast.walk(fns[0]) if isinstance(n, ast.If) and isinstance(n.test, ast.Compare) and isinstance(n.test.left, ast.Name) and n.test.left.id == "kind" and len(n.test.ops) == 1 and isinstance(n.test.ops[0], ast.Eq) and isinstance(n.test.comparators[0], ast.Constant) and n.test.comparators[0].value == "N"]
        if len(branches) != 1:
            ob.verdict, ob.detail = C.NOT_ENCODABLE, f"{len(branches)} branches for kind == 'N' in magic_fn"
            return
        body = branches[0].body
        calls = [c.func.id if isinstance(c.func, ast.Name) else ast.unparse(c.func) for st in body for c in ast.walk(st) if isinstance(c, ast.Call)]
        simple = all(isinstance(st, (ast.Assign, ast.AnnAssign, ast.Expr)) for st in body)
        fact = simple and set(calls) <= {"nowiki_quote", "text_fn"} and calls.count("text_fn") == 1
        ob.conditions = ob.queries = ob.paths = 1
        ob.samples.append({"N_branch_calls": calls, "simple_statements_only": simple})
        if fact and not C.distrust():
            ob.verdict = C.DISCHARGED
            ob.confirmed_conditions = 1
            return
        # z3: which token alternatives can match inside a quoted body?
        import wikitextprocessor.parser as P
        from wikitextprocessor.common import _nowiki_map

        gen0, _ = xh.prepare(H)
        mod = xh.load(gen0)
        unq = R._neg(R._union(z3.Re(k) for k in _nowiki_map))  # one character that is not quoted (and not the \b marker)
        Q = z3.Star(R._union([unq] + [z3.Re(v) for v in _nowiki_map.values()]))
        x, u, t, v = z3.String("x"), z3.String("u"), z3.String("t"), z3.String("v")
        bodies, undecided = [], []
        t0 = time.time()
        for alt in P.token_list:
            caret = alt.startswith("^")
            try:
                lang = R.to_z3(alt.replace(r"\b", ""))  # without \b the alternative matches more: sound for 'cannot match'
            except Exception as e:  # noqa: BLE001 - e.g. the placeholder range lies outside z3's character range
                undecided.append((alt[:30], f"{type(e).__name__}: {e}"))
                continue
            for multi in (False, True):
                sol = z3.Solver()
                sol.set("timeout", 20000)
                sol.add(z3.InRe(x, Q), x == z3.Concat(u, t, v), z3.InRe(t, lang), z3.Length(t) > 0)
                if caret:
                    sol.add(z3.Or(u == z3.StringVal(""), z3.SuffixOf(z3.StringVal("\n"), u)))
                if multi:
                    sol.add(z3.PrefixOf(z3.StringVal("a\n"), u), z3.SuffixOf(z3.StringVal("\nb"), v))
                r = str(sol.check())
                ob.queries += 1
                if r == "sat":
                    bodies.append((alt[:30], mod.decode(R.z3str_to_py(sol.model().eval(x, model_completion=True).as_string()))))
                elif r != "unsat":
                    undecided.append((alt[:30], r))
        ob.solver_s += time.time() - t0
        fixed = ["a\n \nb", "a\n\t\nb", "a\n----\nb", "a\n;x\nb", "a\n b", "a\n\n\nb"]
        ob.samples.append({"token_alternatives_that_can_match_in_a_quoted_body": bodies[:12], "undecided": undecided[:6]})
        from wikitextprocessor import Wtp
        from wikitextprocessor.parser import WikiNode

        def kinds(n):
            return (n.kind.name, [kinds(c) for c in n.children if isinstance(c, WikiNode)], [[kinds(c) for c in a if isinstance(c, WikiNode)] for a in n.largs])

        for _alt, c in bodies + [("fixed list", b) for b in fixed]:
            if "</nowiki" in c.lower() or c.strip() == "":
                continue
            sig, bad, what = mod._api_nowiki(c)
            if bad:
                vv = rep.violation(sig, "nowiki body is not one inert text node: " + what, {"body": c})
                ob.verdict = C.VIOLATED if vv.known is None else C.KNOWN
                return
            for pre, post in (("* i ", "\n* j\n"), ("{{t|", "}}"), ("[[a|", "]]"), ("{|\n| ", "\n| d\n|}")):
                w = Wtp(quiet=True, quiet_output=True)
                w.start_page("T")
                got = kinds(w.parse(pre + "<nowiki>" + c + "</nowiki>" + post))
                w.start_page("T")
                want = kinds(w.parse(pre + "<nowiki>word</nowiki>" + post))
                if got != want:
                    doc = pre + "<nowiki>" + c + "</nowiki>" + post
                    vv = rep.violation("parse(" + repr(doc) + ")", f"the nowiki body changes the structure around it: node kinds {got}, with a plain word as body {want}", {"doc": doc})
                    ob.verdict = C.VIOLATED if vv.known is None else C.KNOWN
                    return
        ob.detail = f"the N branch of magic_fn calls {calls}; {len(bodies)} quoted bodies in which a token alternative can match and {len(fixed)} fixed ones still parse to one inert text node -> inconclusive"
    except Exception as e:  # noqa: BLE001
        ob.detail += f"{type(e).__name__}: {e}"


def finalize_fixpoint(rep: C.Report) -> None:
    """Ob7: _finalize_expand substitutes placeholders inside a loop that only ends when a pass changes nothing (unexpanded
    constructs put their arguments back verbatim, so each nesting level needs one more pass).  AST/E3 fact: the substitution call
    sits in a `while` whose every exit is guarded by a before/after comparison; otherwise nested documents are replayed.
    (CrossHair cannot run _finalize_expand on symbolic text: ord() of a symbolic match raises an internal error.)"""
    ob = rep.add(C.Ob("Ob7 finalisation iterates to a fixed point (no placeholder survives nested unexpanded constructs)", "AST fact + replay", ["core.py:Wtp._finalize_expand"], "nesting depth unbounded (loop structure)"))
    try:
        tree = ast.parse(open(os.path.join(C.SRC, "core.py")).read())
        fns = [f for q, f in AP.functions(tree) if q[-1] == "_finalize_expand"]
        if len(fns) != 1:
            ob.verdict, ob.detail = C.NOT_ENCODABLE, "_finalize_expand not found"
            return
        ok = fixpoint_loop(fns[0])
        ob.conditions = ob.queries = ob.paths = 1
        if ok and not C.distrust():
            ob.verdict = C.DISCHARGED
            ob.confirmed_conditions = 1
            return
        gen0, _ = xh.prepare(H)
        mod = xh.load(gen0)
        for depth in range(1, 8):
            for c in ("''", "{{a}}", "=x"):
                sig, bad, what = mod.replay_finalize_depth(c, depth)
                if bad:
                    v = rep.violation(sig, what, {"depth": depth, "c": c})
                    ob.verdict = C.VIOLATED if v.known is None else C.KNOWN
                    return
        ob.detail = "no fixed-point loop around the placeholder substitution, but nested documents up to depth 7 finalise cleanly -> inconclusive"
    except Exception as e:  # noqa: BLE001
        ob.detail += f"{type(e).__name__}: {e}"


def run(rep: C.Report) -> None:
    quick = C.tier() == "quick"
    rep.explanation = (
        "Kernels under CrossHair with the document as ONE symbolic string whose tag characters are pinned: nowiki_quote output carries no markup character outside an entity "
        "and decodes back; preprocess_text turns <nowiki>c</nowiki> into exactly one N cookie holding c verbatim, which _finalize_expand renders as the quoted text; the cookie "
        "survives with a context character on each side; a closed comment (and the newline before it) disappears. E3: the N branch of both cookie loops of the expander only re-emits the cookie."
    )
    rep.assumptions += ["rev_ht is replaced by an association list (equality instead of hashing) in the cookie conditions", "c does not contain the closing tag (alphabet has no letters of 'nowiki')"]
    rep.outside += ["embedding of nowiki in template arguments / links / table cells through the whole expander and parser (only Ob3's path query and the replay catalogue touch it)", "parse()-side handling (magic_fn) beyond the replay"]
    rep.trusted += ["CrossHair 0.0.110", "z3", "vf/astpaths.py"]
    src = open(H).read() + "\n" + gen(quick)
    xh.check_harness(
        rep,
        H,
        {
            "^quote_inert": dict(name="Ob1 nowiki_quote: no markup outside entities, decodes back to c", functions=["common.py:nowiki_quote"], bounds=f"c <= {2 if quick else 3} chars over the 15 markup characters + a, newline, ;"),
            "^cookie_|^ctxt_": dict(name="Ob2 <nowiki>c</nowiki> becomes exactly one N cookie holding c; finalize renders the quoted text", functions=["core.py:Wtp.preprocess_text", "core.py:Wtp._save_value", "core.py:Wtp._finalize_expand"], bounds=f"c of 0..{1 if quick else 3} symbolic chars; with one context char each side c <= {1 if quick else 2} (per-character behaviour: every character of the alphabet is in range at every position)"),
            "^parsen_": dict(name="Ob8 parse('<nowiki>c</nowiki>') yields text only: c quoted exactly once", functions=["core.py:Wtp.parse", "core.py:Wtp.preprocess_text", "parser.py:magic_fn", "common.py:nowiki_quote"], bounds=f"c of 1..{1 if quick else 2} symbolic markup characters (the 15 documented ones)"),
            "^magicn_": dict(name="Ob5 parse side: an N cookie only adds its quoted text to the open node, at line start or not", functions=["parser.py:magic_fn", "parser.py:text_fn"], bounds=f"c of 0..{1 if quick else 2} symbolic chars over markup + space; beginning-of-line flag and open section symbolic"),
            "^cmt_": dict(name="Ob4 a closed comment and the line break before it vanish", functions=["core.py:Wtp.preprocess_text"], bounds=f"text before / inside / after the comment: 0..{1 if quick else 2} symbolic chars each over {{a,newline,<,-,!,>}}"),
        },
        timeout=100 if quick else 600,
        src=src,
        batch=3,
        twins=False,
    )
    n_cookie_passthrough(rep)
    preprocess_order(rep)
    finalize_fixpoint(rep)
    comment_token_language(rep)
    nowiki_token_language(rep)
    nowiki_parser_side(rep)


def replay(r: dict) -> int:
    print(r)
    return 0
