"""C03 - tables, HTML attributes parse to their written structure (partial: table one-step lemmas, attribute kernel)."""
from __future__ import annotations

import os

import z3

from vf import common as C
from vf import resym as R
from vf import xh

H = os.path.join(C.VERIF, "harness", "C03_tables.py")


def gen(quick: bool) -> str:
    out = []
    # table steps: the shape of the state (row present, number of closed cells, open cell kind, caption) is enumerated by
    # the generator - a symbolic int driving range()/formatting produced CrossHair artefacts (measured) - the kinds of the
    # closed cells and the cell text stay symbolic
    TXT = 'len(txt) == 1 and txt[0] in "ab"'
    states = [(False, 0, 0, False), (False, 0, 0, True)] + [(True, n, o, False) for n in range(3) for o in range(3)]
    for (has_row, n, o, cap) in states:
        tag = ("cap" if cap else ("r%d%d" % (n, o) if has_row else "t"))
        st = f"{has_row}, h0, h1, {n}, {o}, {cap}, txt"
        st_nc = f"{has_row}, h0, h1, {n}, {o}, txt"
        conds = [("row", f"row_step({st})", f'canonical({st}, "\\n|-\\n| z\\n|}}\\n")'), ("end", f"end_step({st})", f'canonical({st}, "\\n|}}\\nafter")')]
        if not cap:
            conds += [
                ("dcell", f"cell_step(False, {st_nc})", f'canonical({has_row}, h0, h1, {n}, {o}, False, txt, "\\n| z\\n|}}\\n")'),
                ("hcell", f"cell_step(True, {st_nc})", f'canonical({has_row}, h0, h1, {n}, {o}, False, txt, "\\n! z\\n|}}\\n")'),
                ("caption", f"caption_step({st_nc})", f'canonical({has_row}, h0, h1, {n}, {o}, False, txt, "\\n|+ cap\\n|}}\\n")'),
            ]
        if has_row and o:
            # cell text concrete here: with a symbolic cell text CrossHair reports a model that does not reproduce (artefact in _finalize_expand on pop)
            conds.append(("dvbar", f"dvbar_step(h0, h1, {n}, {o}, 'a')", f'canonical(True, h0, h1, {n}, {o}, False, "a", " || z\\n|}}\\n")'))
        if has_row and o == 2:
            conds.append(("dexcl", f"dexcl_step(h0, h1, {n}, 'a')", f'canonical(True, h0, h1, {n}, 2, False, "a", " !! z\\n|}}\\n")'))
        for name, call, doc in conds:
            out.append(f'''
def t_{name}_{tag}(h0: bool, h1: bool, txt: str) -> bool:
    """
    pre: {TXT}
    post: _
    """
    return {call}


def replay_t_{name}_{tag}(h0, h1, txt):
    return replay_table({doc})
''')
    VL = 2 if quick else 3
    styles = {"dq": ('"', '"'), "sq": ("'", "'"), "bare": ("", "")}
    for sn, (q1, q2) in styles.items():
        for kl in (1, 2):
            for vl in range(0 if sn != "bare" else 1, VL + 1):
                n = kl + 1 + len(q1) + vl + len(q2)
                pins = [f's[{kl}] == "="']
                if q1:
                    pins += [f"s[{kl + 1}] == {q1!r}", f"s[{n - 1}] == {q2!r}"]
                kpre = " and ".join(f's[{i}] in "abA-"' if i else 's[0] in "abA"' for i in range(kl))  # names are case-preserving
                vs = kl + 1 + len(q1)
                valpha = '"ab1-_./:"' if sn == "bare" else '"ab1-_./: "'
                vpre = " and ".join(f"s[{vs + i}] in {valpha}" for i in range(vl)) or "True"
                out.append(f'''
def attr_{sn}_{kl}_{vl}(s: str) -> bool:
    """
    pre: len(s) == {n} and {" and ".join(pins)}
    pre: {kpre}
    pre: {vpre}
    post: _
    """
    return attrs_of(s) == {{s[:{kl}]: s[{vs}:{vs + vl}]}}


def replay_attr_{sn}_{kl}_{vl}(s):
    return _api_attrs(s, {{s[:{kl}]: s[{vs}:{vs + vl}]}})
''')
    # attributes written on tables, rows and cells (same written forms as above, shorter bounds)
    for sn, (q1, q2) in styles.items():
        for vl in ((1, 2) if quick else (1, 2, 3)):
            kl = 1
            n = kl + 1 + len(q1) + vl + len(q2)
            pins = [f's[{kl}] == "="'] + ([f"s[{kl + 1}] == {q1!r}", f"s[{n - 1}] == {q2!r}"] if q1 else [])
            vs = kl + 1 + len(q1)
            valpha = '"ab1-_./:"'
            pre = f"len(s) == {n} and " + " and ".join(pins + ['s[0] in "abA"'] + [f"s[{vs + i}] in {valpha}" for i in range(vl)])
            for where, extra, call in (("table", "", f"table_attr_step(s, {kl}, {vs}, {vl})"), ("row", ", header: bool", f"row_attr_step(s, {kl}, {vs}, {vl}, header)"), ("cell", ", header: bool", f"cell_attr_step(s, {kl}, {vs}, {vl}, header)")):
                hdr = ", header" if extra else ""
                out.append(f"""
def place_{where}_{sn}_{vl}(s: str{extra}) -> bool:
    \"\"\"
    pre: {pre}
    post: _
    \"\"\"
    return {call}


def replay_place_{where}_{sn}_{vl}(s{hdr}):
    return replay_attr_place(s, {kl}, {vs}, {vl}, "{where}"{hdr})
""")
    out.append('''
def sepin_all(inner: int, open_kind: int, tok: int, ch: str) -> bool:
    """
    pre: 0 <= inner < 4 and 1 <= open_kind <= 2 and 0 <= tok < 3
    pre: len(ch) == 1 and ch[0] in "a !|"
    pre: tok != 2 or inner == 0
    post: _
    """
    return sep_inside_step(inner, open_kind, tok, ch)


def replay_sepin_all(inner, open_kind, tok, ch):
    return replay_sep_inside(inner, open_kind, tok, ch)


def wspcell_all(open_kind: int, txt: str) -> bool:
    """
    pre: 1 <= open_kind <= 2 and len(txt) == 2 and txt[0] in "ab =" and txt[1] == chr(10)
    post: _
    """
    return wsp_cell_step(open_kind, txt)


def replay_wspcell_all(open_kind, txt):
    return replay_wsp_cell(open_kind, txt)


def extlink_all(scheme: int, label: bool, where: int, ci: int) -> bool:
    """
    pre: 0 <= scheme < N_SCHEMES and 0 <= where < len(EXT_WHERE) and 0 <= ci < len(EXT_CH)
    post: _
    """
    return extlink_step(scheme, label, where, ci)


def replay_extlink_all(scheme, label, where, ci):
    return replay_extlink(scheme, label, where, ci)


def carry_flags(pre_parse: bool, bol: bool, wsp: bool, supp: bool) -> bool:
    """
    post: _
    """
    return carry_over(pre_parse, bol, wsp, supp)


def replay_carry_flags(pre_parse, bol, wsp, supp):
    return replay_carry_over(pre_parse, bol, wsp, supp)


def nest_begline(o0: bool, o1: bool, o2: bool, o3: bool, o4: bool, o5: bool) -> bool:
    """
    post: _
    """
    return begline_nesting(o0, o1, o2, o3, o4, o5)


def replay_nest_begline(o0, o1, o2, o3, o4, o5):
    return replay_begline_nesting(o0, o1, o2, o3, o4, o5)
''')
    # `|` inside links, templates, parameter references and parser functions
    for ki, kn in enumerate(["link", "template", "arg", "parserfn"]):
        for n_prev in (0, 1, 2):
            out.append(f"""
def vargs_{kn}_{n_prev}(txt: str) -> bool:
    \"\"\"
    pre: 1 <= len(txt) <= 2 and all(c in "ab =:" for c in txt)
    post: _
    \"\"\"
    return vbar_args_step({ki}, {n_prev}, txt)


def replay_vargs_{kn}_{n_prev}(txt):
    return replay_vbar_args({ki}, {n_prev}, txt)
""")
    # two attributes: one symbolic string  k1="v1"<sep>k2=v2  with pinned punctuation
    out.append('''
def attr_two(s: str) -> bool:
    """
    pre: len(s) == 9 and s[1] == "=" and s[2] == \'"\' and s[4] == \'"\' and s[7] == "="
    pre: s[0] in "ab" and s[6] in "cd" and s[3] in "ab1-/" and s[8] in "ab1-/" and s[5] in " \\n\\t"
    post: _
    """
    return attrs_of(s) == {s[0]: s[3], s[6]: s[8]}


def replay_attr_two(s):
    return _api_attrs(s, {s[0]: s[3], s[6]: s[8]})
''')
    return "\n".join(out)


def e2_attr_grammar(rep: C.Report) -> None:
    """check_for_attributes' pattern accepts every written attribute list of the URL-safe grammar (unbounded)"""
    ob = rep.add(C.Ob("Ob3 the table-attribute detector accepts every attribute list of the URL-safe grammar", "E2 z3 regex", ["parser.py:attr_assignments_re"], "no length bound; names [a-z][a-z-]*, values over [a-z0-9-_./:] bare or quoted, separated by blanks"))
    try:
        import wikitextprocessor.parser as P

        pat = P.attr_assignments_re.pattern
        bad = R.validate([(pat, 0)], ['a=b', 'a="b c" d=e', "a='x'", 'a', 'a=', ' a=b ', 'a=b\n', 'a="b', 'a=b c=d e=f', '"=x'], mode="match")
        if bad:
            ob.detail = "translator self-check failed: " + "; ".join(bad[:2])
            return
        L = R.match_lang(pat)
        name = z3.Concat(z3.Range("a", "z"), z3.Star(z3.Union(z3.Range("a", "z"), z3.Re("-"))))
        vch = z3.Union(z3.Range("a", "z"), z3.Range("0", "9"), *[z3.Re(c) for c in "-_./:"])
        val = z3.Union(z3.Plus(vch), z3.Concat(z3.Re('"'), z3.Star(z3.Union(vch, z3.Re(" "))), z3.Re('"')), z3.Concat(z3.Re("'"), z3.Star(z3.Union(vch, z3.Re(" "))), z3.Re("'")))
        one = z3.Concat(name, z3.Re("="), val)
        G = z3.Concat(z3.Star(z3.Re(" ")), one, z3.Star(z3.Concat(z3.Plus(z3.Re(" ")), one)), z3.Star(z3.Re(" ")))
        r, model, dt = R.solve(lambda x: [z3.InRe(x, G), z3.Not(z3.InRe(x, L))], seed=C.seed())
        ob.queries = ob.paths = ob.conditions = 1
        ob.solver_s = dt
        if r == "unsat":
            ob.verdict = C.DISCHARGED
            ob.confirmed_conditions = 1
            ob.samples.append({"query": "x in written-attribute grammar and x not matched by attr_assignments_re", "result": "unsat"})
        elif r == "sat":
            s = R.z3str_to_py(model)
            import sys
            gen0, _ = xh.prepare(H)
            mod = xh.load(gen0)
            doc = "{|" + s + "\n|-\n| x\n|}"
            w = mod.Wtp(quiet=True, quiet_output=True)
            w.start_page("T")
            root = w.parse(doc)
            tables = [c for c in root.children if isinstance(c, mod.WikiNode) and c.kind == mod.K.TABLE]
            bad_ = not tables or not tables[0].attrs
            ob.samples.append({"model": s, "table_attrs": tables and dict(tables[0].attrs)})
            if bad_:
                v = rep.violation("parse(" + repr(doc) + ")", "written table attributes are not recognised as attributes", {"doc": doc})
                ob.verdict = C.VIOLATED if v.known is None else C.KNOWN
            else:
                ob.detail = f"model {s!r} not matched by the detector but the table still gets attributes -> inconclusive"
        else:
            ob.detail = f"solver {r}"
    except R.Unsupported as e:
        ob.verdict, ob.detail = C.NOT_ENCODABLE, str(e)
    except Exception as e:  # noqa: BLE001
        ob.detail += f"{type(e).__name__}: {e}"


def permitted_parents(rep: C.Report) -> None:
    """Ob4: the permitted-parent relation that drives tag_fn's auto-close equals the content-model rule stated in
    wikihtml.py's header: child c may sit directly in parent p iff p is named in c's parents, or c asks for 'flow' and p takes
    flow content, or c asks for 'phrasing' (or '*') and p takes phrasing content (flow implies phrasing; '*' content takes both).
    The relation computed by the real set_html_tag_data and the rule are both loaded into z3 as finite relations; z3 looks
    for a pair on which they differ (finite domain - degenerate use of the solver, said openly); a pair is replayed
    through Wtp.parse('<p>a<c>b</c>d</p>')."""
    ob = rep.add(C.Ob("Ob4 permitted-parent relation (auto-close) equals the HTML content-model rule", "z3 over the relation computed by the real code (finite) + replay", ["parser.py:set_html_tag_data", "wikihtml.py:ALLOWED_HTML_TAGS"], "all ordered pairs of tags of the allowed-tag table"))
    try:
        from wikitextprocessor import Wtp
        from wikitextprocessor.parser import HTMLNode, WikiNode

        w = Wtp(quiet=True, quiet_output=True)
        tags = sorted(w.allowed_html_tags)
        real = w.html_permitted_parents

        def takes(p, cat):
            content = w.allowed_html_tags[p].get("content", [])
            if "*" in content:
                return True
            if cat == "flow":
                return "flow" in content
            return "phrasing" in content or "flow" in content

        def rule(p, c):
            parents = w.allowed_html_tags[c].get("parents", [])
            return p in parents or (("flow" in parents or "*" in parents) and takes(p, "flow")) or (("phrasing" in parents or "*" in parents) and takes(p, "phrasing"))

        P, Cc = z3.Ints("p c")
        R = z3.Function("real", z3.IntSort(), z3.IntSort(), z3.BoolSort())
        S = z3.Function("rule", z3.IntSort(), z3.IntSort(), z3.BoolSort())
        s = z3.Solver()
        for i, p in enumerate(tags):
            for j, c in enumerate(tags):
                s.add(R(i, j) == (p in real.get(c, set())), S(i, j) == rule(p, c))
        s.add(P >= 0, P < len(tags), Cc >= 0, Cc < len(tags), R(P, Cc) != S(P, Cc))
        ob.conditions = 1
        pairs = []
        while len(pairs) < 200:
            r = str(s.check())
            ob.queries += 1
            ob.paths += 1
            if r != "sat":
                break
            m = s.model()
            i, j = m[P].as_long(), m[Cc].as_long()
            pairs.append((tags[i], tags[j]))
            s.add(z3.Not(z3.And(P == i, Cc == j)))
        ob.samples.append({"tags": len(tags), "pairs_checked": len(tags) ** 2, "differing_pairs": pairs[:8]})
        if not pairs:
            ob.verdict = C.DISCHARGED
            ob.confirmed_conditions = 1
            return
        hit = None
        for p, c in pairs:
            if w.allowed_html_tags[p].get("no-end-tag") or w.allowed_html_tags[c].get("no-end-tag"):
                continue
            doc = f"<{p}>a<{c}>b</{c}>d</{p}>"
            x = Wtp(quiet=True, quiet_output=True)
            x.start_page("T")
            root = x.parse(doc)
            top = [n for n in root.children if isinstance(n, WikiNode)]
            nested = bool(top) and isinstance(top[0], HTMLNode) and top[0].sarg == p and any(isinstance(k, HTMLNode) and k.sarg == c for k in top[0].children)
            if nested != rule(p, c):
                hit = (doc, nested, rule(p, c))
                break
        if hit:
            v = rep.violation("parse(" + repr(hit[0]) + ")", f"<{hit[0].split('>')[0][1:]}> {'keeps' if hit[1] else 'is closed before'} the inner element, the content model says it {'may' if hit[2] else 'may not'} contain it", {"doc": hit[0]})
            ob.verdict = C.VIOLATED if v.known is None else C.KNOWN
            ob.confirmed_conditions = 1
        else:
            ob.detail = f"relation differs from the rule on {pairs[:4]} but parse() nests as the rule says -> inconclusive"
    except Exception as e:  # noqa: BLE001
        ob.detail += f"{type(e).__name__}: {e}"


def run(rep: C.Report) -> None:
    quick = C.tier() == "quick"
    rep.explanation = (
        "Table structure by induction over tokens: from every table state of the abstraction (TABLE, optionally a CAPTION, or a ROW with up to two closed cells of symbolic kind and an optional open cell of symbolic kind and content) "
        "the real handlers for |-, line-start | and !, mid-line || and !!, |+ and |} leave exactly the state the written grid prescribes (new row under the table, new cell of the written kind under the current row - created if absent -, "
        "sibling cell of the kind it follows, caption under the table, table closed). CrossHair confirms each step over all paths; by induction an r x c grid yields r rows of c cells. "
        "Attribute parsing: parse_attrs returns exactly the written map for symbolic names/values in three quoting styles; the table-attribute detector accepts the whole URL-safe attribute grammar (z3, unbounded)."
    )
    rep.assumptions += ["table state abstraction; cells hold plain text; begline representation invariant", "mid-line single '|' (attribute separator) is not part of the step set"]
    rep.outside += ["HTML element nesting (permitted parents / auto-close)", "link and template argument lists beyond Ob6/Ob10 (vbar_split uses a back-reference pattern)", "attributes on cells via 'attrs | content'", "nested tables"]
    rep.trusted += ["CrossHair 0.0.110", "z3", "reference grid builder in harness/C03_tables.py"]
    try:
        src = open(H).read() + "\n" + gen(quick)
        xh.check_harness(
            rep,
            H,
            {
                "^t_": dict(name="Ob2 table one-step lemmas (|-  |  !  ||  !!  |+  |})", functions=["parser.py:table_row_fn", "parser.py:table_cell_fn", "parser.py:table_hdr_cell_fn", "parser.py:double_vbar_fn", "parser.py:table_caption_fn", "parser.py:table_end_fn"], bounds="all table states with <= 2 closed cells of symbolic kind, optional open cell of symbolic kind with one symbolic content char, optional caption"),
                "^wspcell_": dict(name="Ob11 `|` preceded only by blanks on its line starts a new cell (it is not the attribute separator of the open cell)", functions=["parser.py:table_cell_fn"], bounds="open data / header cell holding one symbolic character and a line break; wsp_beginning_of_line set, no preformatted block on top (tables inside <p> / <ref>)"),
                "^extlink_": dict(name="Ob10 [target label] with a target of any scheme of URL_STARTS is one URL node whose argument lists are the written target and label", functions=["parser.py:magic_fn (E branch)", "parser.py:text_fn (URL check)", "core.py:Wtp._encode.repl_extlink", "common.py:URL_STARTS"], bounds="every entry of URL_STARTS (read from the source) x with/without label x {top level, table cell, list item, HTML element, link argument} x one inner target character over {a . - _ ~} (the target never ends in punctuation: a final . ! ? , is moved out of a bracketed URL by the URL-token handler, observed and not claimed either way) (symbolic indices: solver-driven case split, parse() untraced)"),
                "^sepin_": dict(name="Ob8 cell separators (!!, mid-line !, ||) inside an open HTML element / link / template / external link in a cell are text", functions=["parser.py:table_hdr_cell_fn", "parser.py:double_vbar_fn"], bounds="4 construct kinds x data/header cell x 3 tokens x one symbolic preceding character"),
                "^carry_": dict(name="Ob9 parse() of a table / HTML document does not depend on parser flags left behind by an earlier parse() on the same context (havoc)", engine="E4 havoc via CrossHair", functions=["parser.py:parse_encoded (per-call reset)"], bounds="4 symbolic flags (pre_parse, beginning_of_line, wsp_beginning_of_line, suppress_special); one document with a table (caption, attributes, header and data cells, link) and nested HTML elements"),
                "^nest_": dict(name="Ob7 beginning-of-line syntax stays disabled while any argument list is being re-parsed (nesting of the disable manager)", functions=["core.py:BegLineDisableManager"], bounds="all well-nested enter/exit sequences of length 6"),
                "^vargs_": dict(name="Ob6 `|` inside a link / template / parameter reference / parser function closes the current argument (arguments accumulate in written order)", functions=["parser.py:vbar_fn"], bounds="4 node kinds x 0..2 earlier arguments x current argument text of 1..2 symbolic chars"),
                "^place_": dict(name="Ob5 attributes written on a table, a row or a cell become that node's attribute map", functions=["parser.py:table_check_attrs", "parser.py:table_row_check_attrs", "parser.py:table_cell_fn (attribute separator)", "parser.py:check_for_attributes"], bounds="one attribute, name 1 char (lower or upper case), value 1..2 (thorough 3) symbolic URL-safe chars, three quoting styles; data and header cells"),
                "^attr_": dict(name="Ob1 parse_attrs returns exactly the written attribute map", functions=["parser.py:parse_attrs"], bounds=f"name 1..2 chars over [ab-], value 0..{2 if quick else 3} chars over URL-safe characters, double-quoted / single-quoted / bare; two attributes with symbolic separator"),
            },
            timeout=90 if quick else 400,
            src=src,
            batch=6,
            twins=False,
        )
    except Exception as e:  # noqa: BLE001
        rep.add(C.Ob("Ob1/Ob2", "E1 CrossHair", [], "", verdict=C.NOT_ENCODABLE, detail=f"{type(e).__name__}: {e}"))
    e2_attr_grammar(rep)
    permitted_parents(rep)


def replay(r: dict) -> int:
    print(r)
    return 0
