"""C09 - processing a page does not depend on what the context processed before (Python-level state)."""
from __future__ import annotations

import ast
import os
import re
import subprocess
import sys

import z3

from vf import astpaths as AP
from vf import common as C
from vf import xh

H = os.path.join(C.VERIF, "harness", "C09_havoc.py")


def alias_check(rep: C.Report) -> None:
    """Ob3 (E3): on no path through Wtp.__init__ is an attribute bound to a module-level mutable object and then
    mutated in place (update / item assignment / append ...) - that is how state of one context reaches every later one."""
    ob = rep.add(C.Ob("Ob3 no context attribute aliases a module-level table that is mutated in place", "E3 AST path encoder + z3", [], "all syntactic paths through Wtp.__init__"))
    try:
        tree = ast.parse(open(os.path.join(C.SRC, "core.py")).read())
        modnames = set()
        for n in tree.body:
            if isinstance(n, (ast.Import, ast.ImportFrom)):
                for a in n.names:
                    modnames.add((a.asname or a.name).split(".")[0])
            elif isinstance(n, ast.Assign):
                for t in n.targets:
                    if isinstance(t, ast.Name):
                        modnames.add(t.id)
        inits = [f for q, f in AP.functions(tree) if q == ["Wtp", "__init__"]]
        if len(inits) != 1:
            ob.verdict, ob.detail = C.NOT_ENCODABLE, "Wtp.__init__ not found"
            return
        fn = inits[0]
        ob.functions.append(f"core.py:Wtp.__init__@{fn.lineno}")
        attrs = set()
        for n in ast.walk(fn):
            if isinstance(n, (ast.Assign, ast.AnnAssign)):
                tg = n.targets if isinstance(n, ast.Assign) else [n.target]
                v = n.value
                for t in tg:
                    if isinstance(t, ast.Attribute) and isinstance(t.value, ast.Name) and t.value.id == "self" and isinstance(v, ast.Name) and v.id in modnames:
                        attrs.add((t.attr, v.id))
        MUT = {"update", "append", "extend", "add", "insert", "pop", "clear", "setdefault", "remove", "discard", "__setitem__"}
        bad = []
        for attr, src in sorted(attrs):

            def is_self_attr(x, attr=attr):
                return isinstance(x, ast.Attribute) and x.attr == attr and isinstance(x.value, ast.Name) and x.value.id == "self"

            def delta(n, attr=attr, src=src):
                if isinstance(n, (ast.Assign, ast.AnnAssign)):
                    tg = n.targets if isinstance(n, ast.Assign) else [n.target]
                    if any(is_self_attr(t) for t in tg):
                        v = n.value
                        return {"aliased": 1} if isinstance(v, ast.Name) and v.id == src else {"aliased": -1000}
                return None

            def probe(stmt):
                if isinstance(stmt, (ast.If, ast.For, ast.While, ast.Try, ast.With)):
                    return None
                for n in AP._walk_no_defs(stmt):
                    if isinstance(n, ast.Call) and isinstance(n.func, ast.Attribute) and n.func.attr in MUT and is_self_attr(n.func.value):
                        return f"self.{attr}.{n.func.attr}()"
                    if isinstance(n, (ast.Assign, ast.AugAssign, ast.Delete)):
                        tg = n.targets if isinstance(n, (ast.Assign, ast.Delete)) else [n.target]
                        for t in tg:
                            if isinstance(t, ast.Subscript) and is_self_attr(t.value):
                                return f"self.{attr}[...] = "
                return None

            enc = AP.Encoder(fn, ["aliased"], delta, probe=probe).run()
            for pr in enc.probes:
                s = z3.Solver()
                s.add(pr.guard, pr.counters["aliased"] >= 1)
                r = str(s.check())
                ob.queries += 1
                ob.paths += 1
                ob.conditions += 1
                if r == "unsat":
                    ob.confirmed_conditions += 1
                else:
                    bad.append((attr, src, pr.label, pr.line))
        ob.samples.append({"attributes_bound_to_module_level_names": sorted(attrs), "in_place_mutations_of_an_alias": bad})
        if not bad and not C.distrust():
            ob.verdict = C.DISCHARGED
            ob.conditions = max(ob.conditions, 1)
            ob.confirmed_conditions = max(ob.confirmed_conditions, 1)
            return
        # replay in a pristine interpreter: extension tags of one context must not be accepted by the next
        code = (
            "from wikitextprocessor import Wtp\n"
            "n='vfx'\n"
            "f=Wtp(quiet=True,quiet_output=True); f.start_page('T'); r0=[type(x).__name__ for x in f.parse('<'+n+'>x</'+n+'>').children]\n"
            "a=Wtp(quiet=True,quiet_output=True,extension_tags={n:{'parents':['phrasing'],'content':['phrasing']}})\n"
            "b=Wtp(quiet=True,quiet_output=True); b.start_page('T'); r1=[type(x).__name__ for x in b.parse('<'+n+'>x</'+n+'>').children]\n"
            "print(r0!=r1, r0, r1)\n"
        )
        p = subprocess.run([sys.executable, "-c", code], capture_output=True, text=True)
        if p.stdout.startswith("True"):
            v = rep.violation("Wtp(extension_tags={'vfx': ...}) then Wtp().parse('<vfx>x</vfx>')", "a default context created after one with extension tags accepts that tag: " + p.stdout.strip()[:160], {"code": code})
            ob.verdict = C.VIOLATED if v.known is None else C.KNOWN
        else:
            ob.detail = f"aliasing path {bad} found, but the extension-tag replay shows no leak -> inconclusive"
    except Exception as e:  # noqa: BLE001
        ob.detail += f"{type(e).__name__}: {e}"


def class_level_state(rep: C.Report) -> None:
    """Ob7: no mutable object is bound at CLASS level of a class whose instances are contexts (Wtp) or parse nodes and then
    mutated through an instance (`self.X[...] = ...`, `self.X.append(...)`, ...): such an object is shared by every context in
    the process, whatever its options.  Facts from the AST of core.py / parser.py: class-body assignments of dict / list / set
    displays or dict()/list()/set()/defaultdict()/deque() calls (`__slots__` and constants that are never mutated are fine);
    z3: finite query over (class attribute, mutation site) pairs.  Replay in a pristine interpreter: an English context
    parses and expands a template, then a French context must behave exactly like a French context in a fresh process."""
    ob = rep.add(C.Ob("Ob7 no mutable class-level attribute is mutated through an instance (state shared between contexts with different options)", "z3 over facts read from the AST (finite) + replay in a pristine interpreter", ["core.py:class Wtp", "parser.py:WikiNode classes"], "all class-body assignments and all self.<attr> mutation sites of the class"))
    try:
        MUT = {"update", "append", "extend", "add", "insert", "pop", "clear", "setdefault", "remove", "discard", "appendleft"}
        pairs = []
        n_attrs = 0
        for mod in ("core.py", "parser.py"):
            tree = ast.parse(open(os.path.join(C.SRC, mod)).read())
            for cls in [n for n in tree.body if isinstance(n, ast.ClassDef)]:
                cattrs = {}
                for st in cls.body:
                    tg, v = None, None
                    if isinstance(st, ast.Assign) and len(st.targets) == 1 and isinstance(st.targets[0], ast.Name):
                        tg, v = st.targets[0].id, st.value
                    elif isinstance(st, ast.AnnAssign) and isinstance(st.target, ast.Name) and st.value is not None:
                        tg, v = st.target.id, st.value
                    if tg is None or tg == "__slots__":
                        continue
                    mutable = isinstance(v, (ast.Dict, ast.List, ast.Set, ast.DictComp, ast.ListComp, ast.SetComp)) or (isinstance(v, ast.Call) and isinstance(v.func, ast.Name) and v.func.id in ("dict", "list", "set", "defaultdict", "deque", "OrderedDict", "Counter"))
                    if mutable:
                        cattrs[tg] = st.lineno
                n_attrs += len(cattrs)
                if not cattrs:
                    continue
                # an instance attribute of the same name assigned in __init__ shadows the class attribute
                init = [f for f in cls.body if isinstance(f, ast.FunctionDef) and f.name == "__init__"]
                shadowed = set()
                for f in init:
                    for n in ast.walk(f):
                        if isinstance(n, (ast.Assign, ast.AnnAssign)):
                            for t in (n.targets if isinstance(n, ast.Assign) else [n.target]):
                                if isinstance(t, ast.Attribute) and isinstance(t.value, ast.Name) and t.value.id == "self":
                                    shadowed.add(t.attr)
                for f in [f for f in ast.walk(cls) if isinstance(f, ast.FunctionDef)]:
                    for n in ast.walk(f):
                        hit = None
                        if isinstance(n, ast.Call) and isinstance(n.func, ast.Attribute) and n.func.attr in MUT and isinstance(n.func.value, ast.Attribute) and isinstance(n.func.value.value, ast.Name) and n.func.value.value.id in ("self", "cls", cls.name):
                            hit = n.func.value.attr
                        elif isinstance(n, (ast.Assign, ast.AugAssign, ast.Delete)):
                            for t in (n.targets if isinstance(n, (ast.Assign, ast.Delete)) else [n.target]):
                                if isinstance(t, ast.Subscript) and isinstance(t.value, ast.Attribute) and isinstance(t.value.value, ast.Name) and t.value.value.id in ("self", "cls", cls.name):
                                    hit = t.value.attr
                        if hit in cattrs and hit not in shadowed:
                            pairs.append((mod, cls.name, hit, cattrs[hit], n.lineno))
        sol = z3.Solver()
        i = z3.Int("i")
        sol.add(i >= 0, i < len(pairs))
        r = str(sol.check())
        ob.queries = ob.paths = 1
        ob.conditions = max(n_attrs, 1)
        ob.samples.append({"mutable_class_level_attributes": n_attrs, "mutated_through_an_instance": [f"{m}:{c}.{a} (bound at line {l0}, mutated at line {l1})" for m, c, a, l0, l1 in pairs]})
        if r == "unsat" and not C.distrust():
            ob.verdict = C.DISCHARGED
            ob.confirmed_conditions = ob.conditions
            return
        code = (
            "import sys, json\n"
            "from wikitextprocessor import Wtp\n"
            "def run(lang, name, body, doc):\n"
            "    w = Wtp(lang_code=lang, quiet=True, quiet_output=True)\n"
            "    pfx = w.NAMESPACE_DATA['Template']['name']\n"
            "    w.add_page(pfx + ':' + name, 10, body)\n"
            "    w.start_page('T')\n"
            "    d = doc.replace('PFX', pfx.lower())\n"
            "    root = w.parse(d)\n"
            "    names = [getattr(n, 'template_name', None) for n in root.children if hasattr(n, 'template_name')]\n"
            "    w.start_page('T')\n"
            "    return [w.expand(d), names, list(w.namespace_prefixes(10)) if hasattr(w, 'namespace_prefixes') else None]\n"
            "if sys.argv[1] == 'both':\n"
            "    run('en', 'hello', 'hello {{{1}}}', '{{PFX:hello|world}} {{hello|x}}')\n"
            "print(json.dumps(run('fr', 'salut', 'bonjour {{{1}}}', '{{PFX:salut|monde}} {{salut|x}}')))\n"
        )
        outs = {}
        for mode in ("fresh", "both"):
            pr = subprocess.run([sys.executable, "-c", code, mode], capture_output=True, text=True, env={**os.environ, "PYTHONPATH": os.path.join(C.REPO, "src") + os.pathsep + os.environ.get("PYTHONPATH", "")})
            outs[mode] = pr.stdout.strip() or ("ERR " + pr.stderr.strip()[-200:])
        ob.samples.append({"replay": outs})
        if outs["fresh"] != outs["both"] and not outs["fresh"].startswith("ERR"):
            v = rep.violation("one process: a context with lang_code='en' parses and expands '{{template:hello|world}}', then a context with lang_code='fr' parses and expands '{{modèle:salut|monde}} {{salut|x}}'", f"the French context gives {outs['both'][:160]}; in a fresh process it gives {outs['fresh'][:160]}" + (f" ({pairs[0][1]}.{pairs[0][2]} is a class-level object mutated through instances)" if pairs else ""), {"code": code})
            ob.verdict = C.VIOLATED if v.known is None else C.KNOWN
        else:
            ob.detail = f"class-level mutable state {[p[2] for p in pairs]} but a French context after an English one behaves like a fresh one -> inconclusive"
    except Exception as e:  # noqa: BLE001
        ob.detail += f"{type(e).__name__}: {e}"


REQ_ST = "hits = (hits or 0) + 1\nreturn {n = hits}"
REQ_MAIN = "local p = {}\nfunction p.f(frame) local s = require('Module:vfst'); return tostring(s.n) end\nreturn p"


def cached_chunks_rebound(rep: C.Report) -> None:
    """Ob8: a chunk served from the loader cache (a module reached through require()) is re-bound to the environment of the
    CURRENT invocation before it is handed out; otherwise it runs in the environment of the invocation that first loaded
    it, and its globals survive invocations and pages.  Facts from the current Lua source of new_loader: (a) the cache-hit
    block contains an unconditional setfenv(<chunk>, <env>) - not nested in a further `if`; (b) the defaulting of the
    environment argument (`_python_top_env() or env`) precedes the cache lookup.  z3: finite query over the two facts;
    replay on the real sandbox with a require()d module that counts in a global."""
    ob = rep.add(C.Ob("Ob8 a cached module chunk is re-bound to the current invocation's environment (require() across invocations and pages)", "z3 over facts read from the current Lua source (finite) + replay on the real sandbox", ["lua/_sandbox_phase1.lua:new_loader"], "the cache-hit block of new_loader; replay: three invocations on two pages"))
    try:
        src = open(os.path.join(C.SRC, "lua", "_sandbox_phase1.lua")).read()
        m = re.search(r"\nfunction new_loader\(.*?\n(.*?)\nend\n", src, re.S) or re.search(r"function new_loader\(.*?\)(.*?)\nend\n", src, re.S)
        if not m:
            ob.verdict, ob.detail = C.NOT_ENCODABLE, "new_loader not found"
            return
        body = "\n".join(line.split("--")[0] for line in m.group(1).splitlines())
        hit = re.search(r"if\s+(?:loader_cache\[modname\]|cached_mod)\s*~=\s*nil\s+then(.*?)\n\s*return\s+cached_mod", body, re.S)
        default_pos = body.find("_python_top_env()")
        facts = {"cache_hit_block_found": bool(hit)}
        if hit:
            blk = hit.group(1)
            depth, uncond = 0, False
            for line in blk.splitlines():
                t = line.strip()
                if re.match(r"if\b.*\bthen$", t):
                    depth += 1
                elif t == "end":
                    depth -= 1
                elif t.startswith("setfenv(") and depth == 0:
                    uncond = True
            facts["setfenv_unconditional_on_cache_hit"] = uncond
            facts["environment_defaulted_before_lookup"] = 0 <= default_pos < hit.start()
        sol = z3.Solver()
        bs = {k: z3.Bool(k) for k in facts}
        for k, v in facts.items():
            sol.add(bs[k] == v)
        sol.add(z3.Not(z3.And(*bs.values())))
        r = str(sol.check())
        ob.queries = ob.paths = ob.conditions = 1
        ob.samples.append(facts)
        if r == "unsat" and not C.distrust():
            ob.verdict = C.DISCHARGED
            ob.confirmed_conditions = 1
            return
        from vf.wtpfix import close, new_ctx

        w = new_ctx(modules={"vfst": REQ_ST, "vfreq": REQ_MAIN})
        res = []
        try:
            w.start_page("P1")
            res.append(w.expand("{{#invoke:vfreq|f}}"))
            w.start_page("P2")
            res.append(w.expand("{{#invoke:vfreq|f}}"))
            res.append(w.expand("{{#invoke:vfreq|f}}"))
        except Exception as e:  # noqa: BLE001
            res.append(f"EXC {type(e).__name__}: {e}")
        close(w)
        if res != ["1", "1", "1"]:
            v = rep.violation("page P1: expand('{{#invoke:vfreq|f}}'); page P2: the same twice - the module require()s a module that counts in a Lua global", f"counter values {res}: the required module keeps the environment of an earlier invocation (every invocation starts from a fresh environment: ['1', '1', '1'])", {"facts": facts})
            ob.verdict = C.VIOLATED if v.known is None else C.KNOWN
        else:
            ob.detail = f"facts {facts} but a require()d module starts from a fresh environment in every invocation -> inconclusive"
    except Exception as e:  # noqa: BLE001
        ob.detail += f"{type(e).__name__}: {e}"


COUNTER_MOD = "local p = {}\nlocal n = 0\ncount_global = (count_global or 0)\nfunction p.f(frame) n = n + 1; count_global = count_global + 1; return tostring(n) .. '/' .. tostring(count_global) end\nreturn p"


def lua_stack_balance(rep: C.Report) -> None:
    """Ob4 (E3): every returning path of call_lua_sandbox that pushed a frame pops the frame stack and the environment stack
    exactly once - including the paths through the exception handlers.  A leftover environment makes later invocations on the
    page skip the environment reset, i.e. module-level state of one invocation becomes visible to the next."""
    ob = rep.add(C.Ob("Ob4 call_lua_sandbox pops the Lua frame and environment stacks on every returning path", "E3 AST path encoder + z3", [], "all syntactic paths incl. exception edges into the handlers"))
    try:
        tree = ast.parse(open(os.path.join(C.SRC, "luaexec.py")).read())
        fns = [f for q, f in AP.functions(tree) if q[-1] == "call_lua_sandbox"]
        if len(fns) != 1:
            ob.verdict, ob.detail = C.NOT_ENCODABLE, "call_lua_sandbox not found"
            return
        fn = fns[0]
        ob.functions.append(f"luaexec.py:call_lua_sandbox@{fn.lineno}")

        def is_stack(n, name):
            return isinstance(n, ast.Attribute) and n.attr == name

        def delta(n):
            if isinstance(n, ast.Call) and isinstance(n.func, ast.Attribute):
                if n.func.attr == "append" and is_stack(n.func.value, "lua_frame_stack"):
                    return {"fpush": 1}
                if n.func.attr == "pop" and is_stack(n.func.value, "lua_frame_stack"):
                    return {"fpop": 1}
                if n.func.attr == "pop" and is_stack(n.func.value, "lua_env_stack"):
                    return {"epop": 1}
            return None

        def branch(test, pol):
            # `if len(stack) > 0: stack.pop()` - the false branch means the stack was already empty: counts as done
            if isinstance(test, ast.Compare) and len(test.ops) == 1 and isinstance(test.ops[0], ast.Gt) and isinstance(test.comparators[0], ast.Constant) and test.comparators[0].value == 0 and isinstance(test.left, ast.Call) and isinstance(test.left.func, ast.Name) and test.left.func.id == "len" and test.left.args and not pol:
                a0 = test.left.args[0]
                if is_stack(a0, "lua_frame_stack"):
                    return {"fpop": 1}
                if is_stack(a0, "lua_env_stack"):
                    return {"epop": 1}
            # the same test written as truthiness: `if stack: stack.pop()`
            if not pol and is_stack(test, "lua_frame_stack"):
                return {"fpop": 1}
            if not pol and is_stack(test, "lua_env_stack"):
                return {"epop": 1}
            return None

        enc = AP.Encoder(fn, ["fpush", "fpop", "epop"], delta, branch=branch).run()
        bad = []
        for ex in enc.exits:
            if ex.kind != "return" and ex.kind != "fallthrough":
                continue
            s = z3.Solver()
            c = ex.counters
            s.add(ex.guard, c["fpush"] >= 1, z3.Or(c["fpop"] != c["fpush"], c["epop"] != c["fpush"]))
            r = str(s.check())
            ob.queries += 1
            ob.paths += 1
            ob.conditions += 1
            if r == "unsat":
                ob.confirmed_conditions += 1
            else:
                bad.append((ex.kind, ex.line))
        ob.samples.append({"query": "return reached after a frame push with frame pops != pushes or environment pops != pushes", "violating_exits": bad})
        if not bad and not C.distrust():
            ob.verdict = C.DISCHARGED
            return
        # replay on the real sandbox: a failing invocation followed by a stateful module, same page
        from vf.wtpfix import new_ctx, close

        results = []
        for first in ("{{#invoke:nosuchmodule|f}}", "{{#invoke:broken|f}}", "{{#invoke:err|f}}"):
            w = new_ctx(modules={"cnt": COUNTER_MOD, "broken": "local p = {} function p.f( return p", "err": "local p = {}\nfunction p.f(frame) error('boom') end\nreturn p"})
            w.start_page("T")
            try:
                w.expand(first)
                got = [w.expand("{{#invoke:cnt|f}}") for _ in range(3)]
            except Exception as e:  # noqa: BLE001
                got = [f"EXC {type(e).__name__}"]
            close(w)
            results.append((first, got))
        ob.samples.append({"replay": results})
        hit = [(f, g) for f, g in results if g != ["1/1", "1/1", "1/1"]]
        if hit:
            f, g = hit[0]
            v = rep.violation(f"one page: expand({f!r}) then three times expand('{{{{#invoke:cnt|f}}}}') (module with a counter)", f"counter values {g}: module-level state survives between invocations (a fresh environment gives 1/1 each time)", {"first": f})
            ob.verdict = C.VIOLATED if v.known is None else C.KNOWN
        else:
            ob.detail = f"unbalanced exit(s) {bad} but the counter-module replay shows fresh state each time -> inconclusive"
    except Exception as e:  # noqa: BLE001
        ob.detail += f"{type(e).__name__}: {e}"


GLOBAL_MOD = "local p = {}\nfunction p.set(frame) leak_g = (leak_g or 0) + 1; return tostring(leak_g) end\nfunction p.get(frame) return tostring(leak_g) end\nreturn p"


def captured_not_rebound(rep: C.Report) -> None:
    """Ob6: objects handed to the Lua side BY REFERENCE when the sandbox is initialised (functools.partial(helper, ctx.<attr>)
    in luaexec.py) must stay the objects the context uses: no method of Wtp other than __init__ may rebind `self.<attr>`
    (z3 path query: an assignment to the attribute is reachable on some path of the method).  A rebinding in start_page makes
    Python and Lua work on two different stacks from the second page on: the per-invocation environments are never popped
    and Lua globals leak from one #invoke to the next.  Replay on the real sandbox."""
    ob = rep.add(C.Ob("Ob6 objects captured by reference at sandbox initialisation are never rebound by the context", "E3 AST path encoder + z3 + replay on the real sandbox", ["luaexec.py:set_lua_env_funcs (functools.partial captures)", "core.py:Wtp methods"], "all syntactic paths of every Wtp method except __init__"))
    try:
        ltree = ast.parse(open(os.path.join(C.SRC, "luaexec.py")).read())
        params = {"wtp", "ctx", "self"}
        captured = set()
        for n in ast.walk(ltree):
            if isinstance(n, ast.Call) and ((isinstance(n.func, ast.Name) and n.func.id == "partial") or (isinstance(n.func, ast.Attribute) and n.func.attr == "partial")):
                for a in n.args[1:]:
                    if isinstance(a, ast.Attribute) and isinstance(a.value, ast.Name) and a.value.id in params:
                        captured.add(a.attr)
        ob.samples.append({"captured_by_reference": sorted(captured)})
        if not captured:
            ob.verdict, ob.detail = C.NOT_ENCODABLE, "no partial(helper, ctx.<attr>) capture found in luaexec.py"
            return
        ctree = ast.parse(open(os.path.join(C.SRC, "core.py")).read())
        bad = []
        for q, fn in AP.functions(ctree):
            if len(q) != 2 or q[0] != "Wtp" or q[1] == "__init__":
                continue

            def delta(n):
                tg = []
                if isinstance(n, ast.Assign):
                    tg = n.targets
                elif isinstance(n, (ast.AnnAssign, ast.AugAssign)):
                    tg = [n.target]
                for t in tg:
                    for e in ast.walk(t):
                        if isinstance(e, ast.Attribute) and isinstance(e.value, ast.Name) and e.value.id == "self" and e.attr in captured and isinstance(e.ctx, ast.Store):
                            return {"rebind": 1}
                return None

            if not any(delta(n) for n in ast.walk(fn)):
                ob.conditions += 1
                ob.confirmed_conditions += 1
                continue
            enc = AP.Encoder(fn, ["rebind"], delta).run()
            for ex in enc.exits:
                sol = z3.Solver()
                sol.add(ex.guard, ex.counters["rebind"] >= 1)
                r = str(sol.check())
                ob.queries += 1
                ob.paths += 1
                ob.conditions += 1
                if r == "unsat":
                    ob.confirmed_conditions += 1
                else:
                    bad.append((q[1], ex.kind, ex.line))
        if not bad and not C.distrust():
            ob.verdict = C.DISCHARGED
            return
        ob.samples.append({"rebinding_paths": bad[:5]})
        from vf.wtpfix import new_ctx, close

        w = new_ctx(modules={"g": GLOBAL_MOD})
        res = []
        try:
            w.start_page("P1")
            res.append(w.expand("{{#invoke:g|set}}"))
            for title in ("P2", "P3"):
                w.start_page(title)
                res.append(w.expand("{{#invoke:g|set}}") + "," + w.expand("{{#invoke:g|get}}") + "," + w.expand("{{#invoke:g|set}}"))
        except Exception as e:  # noqa: BLE001
            res.append(f"EXC {type(e).__name__}: {e}")
        close(w)
        want = ["1", "1,nil,1", "1,nil,1"]
        if res != want:
            v = rep.violation("three pages on one context, each: expand('{{#invoke:g|set}}'), expand('{{#invoke:g|get}}'), expand('{{#invoke:g|set}}') (module increments a Lua global)", f"results {res}: a Lua global set by one invocation is visible to the next (every invocation starts from a fresh environment: {want}); {bad[0][0]}() rebinds an object that Lua holds by reference", {"paths": bad[:3]})
            ob.verdict = C.VIOLATED if v.known is None else C.KNOWN
        else:
            ob.detail = f"rebinding path(s) {bad[:3]} but the replay shows fresh environments -> inconclusive"
    except Exception as e:  # noqa: BLE001
        ob.detail += f"{type(e).__name__}: {e}"


SIG = "bol: bool, wsp: bool, linenum: int, pre_parse: bool, supp: bool, sec: str, has_sec: bool, junk: str, smc: int, pstack: bool"
ARGS = "bol, wsp, linenum, pre_parse, supp, sec, has_sec, junk, smc, pstack"
COND = """
def {tag}({SIG}) -> bool:
    \"\"\"
    pre: len(junk) <= 3 and len(sec) <= 3
    post: _
    \"\"\"
    havoc({ARGS})
    return run_{kind}(ctx, {docs}[{i}]{kw}) == {exp}[{i}]


def replay_{tag}({ARGS}):
    return find_history("{kind}", {i}, {pre})
"""


def gen(quick: bool) -> str:
    out = []
    for kind, n in (("parse", 7 if quick else 17), ("expand", 3 if quick else 8)):
        for i in range(n):
            for pre in (False, True):
                tag = f"hv_{kind}_{i}{'_pre' if pre else ''}"
                exp = ("EXP_PARSE" if kind == "parse" else "EXP_EXPAND") + ("_PRE" if pre else "")
                docs = "PARSE_DOCS" if kind == "parse" else "EXPAND_DOCS"
                out.append(COND.format(tag=tag, SIG=SIG, ARGS=ARGS, kind=kind, docs=docs, i=i, kw=", pre_expand=True" if pre else "", exp=exp, pre=pre))
    return "\n".join(out)


JSON_MOD = "local p = {}\nfunction p.f(frame)\n  local d = mw.loadJsonData('Module:vfdata.json')\n  d.n = (d.n or 0) + 1\n  local e = mw.loadData('Module:vfdata')\n  return tostring(d.n) .. '/' .. tostring(e.k)\nend\nreturn p"


def lua_data_caches(rep: C.Report) -> None:
    """Ob5: every table of the sandbox bootstrap that memoises *page data* (values returned to modules: mw.loadData /
    mw.loadJsonData) is emptied by the function start_page calls.  Decided over the current Lua source as a finite z3 query:
    caches = top-level `local <name> = {}` tables that some function fills with `<name>[key] = <value>` and returns entries of;
    cleared = tables reassigned in the clear function (the second element of the table the file returns); the compiled-chunk
    cache (functions, not data) is exempt.  sat -> replay on the real sandbox: a module mutates loaded data on page 1, page 2 reads it."""
    import re

    ob = rep.add(C.Ob("Ob5 per-page Lua data caches are emptied by start_page", "z3 over facts read from the current Lua source (finite) + replay on the real sandbox", ["lua/_sandbox_phase1.lua: loaddata caches, _clear_loadData_cache"], "all top-level cache tables of the bootstrap file"))
    try:
        src = open(os.path.join(C.SRC, "lua", "_sandbox_phase1.lua")).read()
        tables = set(re.findall(r"^local\s+([A-Za-z_][A-Za-z0-9_]*)\s*=\s*\{\s*\}", src, flags=re.M))
        written = {t for t in tables if re.search(r"\b" + re.escape(t) + r"\[[^\]]+\]\s*=\s*[A-Za-z_]", src)}
        returned = {t for t in written if re.search(r"return\s+" + re.escape(t) + r"\[", src)}
        mret = re.search(r"^return\s*\{\s*([A-Za-z_][A-Za-z0-9_]*)\s*,\s*([A-Za-z_][A-Za-z0-9_]*)\s*\}", src, flags=re.M)
        if not mret:
            ob.verdict, ob.detail = C.NOT_ENCODABLE, "the bootstrap file's return table (loader setter, cache clearer) was not found"
            return
        clear_fn = mret.group(2)
        mbody = re.search(r"function\s+" + re.escape(clear_fn) + r"\s*\(\)(.*?)^end", src, flags=re.S | re.M)
        cleared = set(re.findall(r"([A-Za-z_][A-Za-z0-9_]*)\s*=\s*\{\s*\}", mbody.group(1))) if mbody else set()
        # chunk cache: holds compiled functions (setfenv'ed per use), not page data
        code_caches = {t for t in written if re.search(r"setfenv\(\s*[A-Za-z_]+\s*,", src) and re.search(r"local\s+[A-Za-z_]+\s*=\s*" + re.escape(t) + r"\[", src)}
        data_caches = returned - code_caches
        names = sorted(tables)
        if not data_caches:
            ob.verdict, ob.detail = C.NOT_ENCODABLE, f"no data cache recognised among {names}"
            return
        t = z3.Int("t")
        s = z3.Solver()
        s.add(t >= 0, t < len(names))
        s.add(z3.Or(*[t == names.index(x) for x in sorted(data_caches)]))
        s.add(z3.And(*[t != names.index(x) for x in sorted(cleared) if x in names]))
        r = str(s.check())
        ob.queries = ob.paths = ob.conditions = 1
        ob.samples.append({"data_caches": sorted(data_caches), "cleared_by_" + clear_fn: sorted(cleared), "code_caches": sorted(code_caches)})
        if r == "unsat":
            ob.verdict = C.DISCHARGED
            ob.confirmed_conditions = 1
            return
        leak = names[s.model()[t].as_long()]
        from vf.wtpfix import new_ctx, close

        w = new_ctx(modules={"vfj": JSON_MOD, "vfdata": "return {k = 'K'}"})
        w.add_page("Module:vfdata.json", 828, '{"n": 0}', model="json")
        w.db_conn.commit()
        outs = []
        for title in ("P1", "P2", "P3"):
            w.start_page(title)
            try:
                outs.append(w.expand("{{#invoke:vfj|f}}"))
            except Exception as e:  # noqa: BLE001
                outs.append(f"EXC {type(e).__name__}")
        close(w)
        ob.samples.append({"z3_witness_table": leak, "replay_outputs_per_page": outs})
        if len(set(outs)) > 1:
            v = rep.violation("three pages on one context, each expand('{{#invoke:vfj|f}}') (module increments a field of mw.loadJsonData's table)", f"results per page {outs}: data loaded and modified on one page is visible on the next (cache table {leak!r} is not emptied by start_page)", {"table": leak})
            ob.verdict = C.VIOLATED if v.known is None else C.KNOWN
        else:
            ob.detail = f"cache table {leak!r} is not reset by {clear_fn}, but the replay gives identical results on every page -> inconclusive"
    except Exception as e:  # noqa: BLE001
        ob.detail += f"{type(e).__name__}: {e}"


def cached_pages_not_mutated(rep: C.Report) -> None:
    """Ob10: Page objects are shared between callers through the per-context memo on get_page(); processing one page must not
    change what a later page (or the page itself, processed later) reads from the store.  Fact (AST, all of core.py,
    luaexec.py, parser.py): no statement assigns to a field of the Page dataclass (title, namespace_id, redirect_to,
    need_pre_expand, body, model) on an object other than `self`.  A hit is replayed: a page that transcludes a
    main-namespace page with noinclude / onlyinclude parts is expanded, then the transcluded page is read and processed on
    the same context and on a fresh one."""
    ob = rep.add(C.Ob("Ob10 Page objects shared through the get_page memo are never modified", "AST fact (all assignments to Page fields) + replay over two pages", ["core.py", "luaexec.py", "parser.py", "core.py:Page"], "every assignment statement of the three modules"))
    try:
        ctree = ast.parse(open(os.path.join(C.SRC, "core.py")).read())
        fields = set()
        for cls in ast.walk(ctree):
            if isinstance(cls, ast.ClassDef) and cls.name == "Page":
                fields = {st.target.id for st in cls.body if isinstance(st, ast.AnnAssign) and isinstance(st.target, ast.Name)}
        if not fields:
            ob.verdict, ob.detail = C.NOT_ENCODABLE, "dataclass Page not found"
            return
        hits = []
        n = 0
        for mod in ("core.py", "luaexec.py", "parser.py"):
            tree = ast.parse(open(os.path.join(C.SRC, mod)).read())
            for st in ast.walk(tree):
                tg = st.targets if isinstance(st, ast.Assign) else [st.target] if isinstance(st, (ast.AugAssign, ast.AnnAssign)) else []
                for t in tg:
                    for a in ast.walk(t):
                        if isinstance(a, ast.Attribute) and isinstance(a.ctx, ast.Store):
                            n += 1
                            base = a.value
                            if a.attr in fields and not (isinstance(base, ast.Name) and base.id in ("self", "ctx", "wtp", "node", "n", "cls")) and "page" in ast.unparse(base).lower():
                                hits.append(f"{mod}:{st.lineno} {ast.unparse(t)}")
        ob.conditions = ob.queries = ob.paths = n
        ob.confirmed_conditions = n - len(hits)
        ob.samples.append({"page_fields": sorted(fields), "attribute_stores": n, "stores_into_page_objects": hits})
        if not hits and not C.distrust():
            ob.verdict = C.DISCHARGED
            return
        from wikitextprocessor import Wtp

        text = "intro <noinclude>only on the page itself</noinclude> mid <includeonly>only when included</includeonly> end"
        oi = "a <onlyinclude>X</onlyinclude> b"
        for title, ns, body in (("Glossary", 0, text), ("Appendix:Only", 100, oi), ("Glossary2", 0, oi)):
            w = Wtp(quiet=True, quiet_output=True)
            w.add_page(title, ns, body)
            w.add_page("Index", 0, "see {{:" + title + "}}")
            f = Wtp(quiet=True, quiet_output=True)
            f.add_page(title, ns, body)
            w.start_page("Index")
            w.expand("see {{:" + title + "}}")
            got_body = w.get_page_body(title, ns)
            w.start_page(title)
            got = w.expand(w.get_page_body(title, ns) or "")
            f.start_page(title)
            want = f.expand(f.get_page_body(title, ns) or "")
            if got_body != body or got != want:
                v = rep.violation(f"one context: add_page({title!r}, {ns}, {body!r}); expand('see {{{{:{title}}}}}') on page Index; then get_page_body({title!r}, {ns}) and its expansion", f"the page read back is {got_body!r} (stored: {body!r}); its expansion {got!r}, on a fresh context {want!r}: transcluding a page changed the cached Page object", {"title": title})
                ob.verdict = C.VIOLATED if v.known is None else C.KNOWN
                return
        ob.detail = f"{hits} but the transcluded pages read back unchanged -> inconclusive"
    except Exception as e:  # noqa: BLE001
        ob.detail += f"{type(e).__name__}: {e}"


def begline_invariant(rep: C.Report) -> None:
    """Ob9: the havoc harness assumes a representation invariant at API boundaries - line-start syntax enabled, disable counter
    zero.  Nothing resets the two fields per page, so the invariant rests on the object used as `with ctx.begline_disabled...:`
    in the parser restoring them on EVERY exit of the with-body, exceptional ones included (a parse may raise: RecursionError on
    very deep nesting; the caller catches it and goes on with the next page).
    E3: for a manager class, every path of __enter__ raises the counter by exactly one and every path of __exit__ lowers it
    by exactly one whatever the exception arguments (z3 over the paths of both methods); for a generator-based manager the
    `yield` must sit in a try whose finally-block does the lowering.  If the fact fails a raising parse is replayed: the
    pages processed afterwards on the same context must parse as on a fresh one."""
    ob = rep.add(C.Ob("Ob9 the line-start switch set while arguments are re-parsed is restored on every exit of the with-block, exceptions included (representation invariant of the havoc harness)", "E3 AST path encoder + z3; else replay of a raising parse", ["core.py: object behind Wtp.begline_disabled", "parser.py:magic_fn (with-blocks)"], "all syntactic paths of __enter__/__exit__ (or the generator), unbounded input"))
    try:
        tree = ast.parse(open(os.path.join(C.SRC, "core.py")).read())
        ptree = ast.parse(open(os.path.join(C.SRC, "parser.py")).read())
        uses = [it.context_expr for w in ast.walk(ptree) if isinstance(w, ast.With) for it in w.items if "begline_disabled" in ast.unparse(it.context_expr)]
        ob.samples.append({"with_sites": len(uses), "written_as": sorted({ast.unparse(u) for u in uses})})

        def cnt_delta(n):
            if isinstance(n, ast.AugAssign) and isinstance(n.target, ast.Attribute) and n.target.attr == "begline_disable_counter" and isinstance(n.value, ast.Constant) and n.value.value == 1:
                return {"cnt": 1 if isinstance(n.op, ast.Add) else -1 if isinstance(n.op, ast.Sub) else 0}
            return None

        problems = []
        classes = [c for c in ast.walk(tree) if isinstance(c, ast.ClassDef) and {"__enter__", "__exit__"} <= {f.name for f in c.body if isinstance(f, ast.FunctionDef)} and "begline_disable_counter" in ast.unparse(c)]
        gens = [f for f in ast.walk(tree) if isinstance(f, ast.FunctionDef) and f.name == "begline_disabled" and any(isinstance(y, (ast.Yield, ast.YieldFrom)) for y in ast.walk(f))]
        if classes:
            for c in classes:
                for f in c.body:
                    if isinstance(f, ast.FunctionDef) and f.name in ("__enter__", "__exit__"):
                        want = 1 if f.name == "__enter__" else -1
                        enc = AP.Encoder(f, ["cnt"], cnt_delta).run()
                        for ex in enc.exits:
                            if ex.kind not in ("return", "fallthrough"):
                                continue
                            sol = z3.Solver()
                            sol.add(ex.guard, ex.counters["cnt"] != want)
                            r = str(sol.check())
                            ob.queries += 1
                            ob.paths += 1
                            ob.conditions += 1
                            if r == "unsat":
                                ob.confirmed_conditions += 1
                            else:
                                problems.append(f"{c.name}.{f.name}: a path changes the counter by something else than {want:+d} (core.py:{ex.line})")
                ob.functions.append(f"core.py:{c.name}.__enter__/__exit__")
        elif gens:
            for g in gens:
                ob.conditions += 1
                ob.queries += 1
                ob.paths += 1
                ok = False
                for t in ast.walk(g):
                    if isinstance(t, ast.Try) and t.finalbody and any(isinstance(y, (ast.Yield, ast.YieldFrom)) for b in t.body for y in ast.walk(b)):
                        fin = ast.Module(body=t.finalbody, type_ignores=[])
                        if any((cnt_delta(n) or {}).get("cnt") == -1 for n in ast.walk(fin)):
                            ok = True
                if ok:
                    ob.confirmed_conditions += 1
                else:
                    problems.append(f"generator-based manager {g.name} (core.py:{g.lineno}) lowers the counter after a bare yield: skipped when the with-body raises")
                ob.functions.append(f"core.py:Wtp.{g.name} (generator)")
        else:
            problems.append("no manager object found for begline_disabled")
        if not uses:
            problems.append("no `with ctx.begline_disabled` site found in parser.py")
        if not problems and not C.distrust():
            ob.verdict = C.DISCHARGED
            return
        ob.samples.append({"problems": problems})
        # replay: a parse that raises while arguments are being re-parsed, then the catalogue pages on the same context
        gen0, _ = xh.prepare(H)
        mod = xh.load(gen0)
        import sys

        for opener, closer in (("{{a|", "}}"), ("[[a|", "]]"), ("{{{a|", "}}}")):
            c = mod.make_ctx()
            c.start_page("Deep")
            raised = None
            try:
                c.parse(opener * 1500 + "x" + closer * 1500)
            except Exception as e:  # noqa: BLE001
                raised = type(e).__name__
            if raised is None:
                continue
            for idx, doc in enumerate(mod.PARSE_DOCS):
                try:
                    got = mod.run_parse(c, doc)
                except Exception as e:  # noqa: BLE001
                    got = ("EXC", repr(e))
                if got != mod.EXP_PARSE[idx]:
                    v = rep.violation(f"one context: parse({opener!r} * 1500 + 'x' + {closer!r} * 1500) raises {raised} (caught by the caller); start_page('T'); parse({doc!r})", f"the later page parses differently from a fresh context (begline_enabled={getattr(c, 'begline_enabled', None)}, begline_disable_counter={getattr(c, 'begline_disable_counter', None)} left behind): {str(got[0])[:160]!r} instead of {str(mod.EXP_PARSE[idx][0])[:160]!r}", {"doc": doc})
                    ob.verdict = C.VIOLATED if v.known is None else C.KNOWN
                    return
        ob.detail = f"{problems} but pages parsed after a raising parse equal the fresh-context result -> inconclusive"
    except Exception as e:  # noqa: BLE001
        ob.detail += f"{type(e).__name__}: {e}"


def run(rep: C.Report) -> None:
    quick = C.tier() == "quick"
    rep.explanation = (
        "Havoc harness: every per-page slot of the context (line/flag state, section, title, cookie tables, message lists, expansion path, "
        "strip-marker counters, parser stack) is set to an arbitrary symbolic value; then start_page + parse()/expand() of each catalogue document "
        "(with and without pre_expand) must equal the fresh-context result (tree, messages, expansion path). If the entry points overwrite a slot "
        "before reading it the symbolic value never reaches a branch and CrossHair confirms over all paths for ALL prior values; a missing reset makes "
        "it fork and return the value that changes the result, which is then replayed by searching a real history (a 'dirtying' page processed first). "
        "E3: no attribute of the context aliases a module-level table that is mutated in place."
    )
    rep.assumptions += [
        "representation invariant at API boundaries: begline_enabled is True and begline_disable_counter == 0 (discharged by Ob9)",
        "container shapes are fixed (two cookies, one message per list, three path entries), their contents are symbolic",
        "symbolic strings are not used as dict keys (rev_ht / strip_marker_cache get concrete keys and symbolic values)",
    ]
    rep.outside += ["Lua-side state (globals, module caches, library tables)", "documents outside the catalogue", "state kept in SQLite beyond Ob10"]
    rep.trusted += ["CrossHair 0.0.110", "z3", "vf/astpaths.py"]
    xh.check_harness(
        rep,
        H,
        {
            "^hv_parse": dict(name="Ob1 havoc then start_page+parse == fresh context", engine="E4 havoc via CrossHair", functions=["core.py:Wtp.start_page", "core.py:Wtp.parse", "parser.py:parse_encoded"], bounds=f"all values of 10 symbolic state parameters; {7 if quick else 17} catalogue documents x {{plain, pre_expand}}"),
            "^hv_expand": dict(name="Ob2 havoc then start_page+expand == fresh context", engine="E4 havoc via CrossHair", functions=["core.py:Wtp.start_page", "core.py:Wtp.expand"], bounds=f"same state parameters; {3 if quick else 8} template-heavy documents x {{plain, pre_expand}}"),
        },
        timeout=60 if quick else 300,
        src=open(H).read() + "\n" + gen(quick),
        twins=True,
        twin_timeout=30,
        batch=2,
    )
    alias_check(rep)
    lua_stack_balance(rep)
    lua_data_caches(rep)
    captured_not_rebound(rep)
    class_level_state(rep)
    cached_chunks_rebound(rep)
    begline_invariant(rep)
    cached_pages_not_mutated(rep)


def replay(r: dict) -> int:
    print(r)
    return 0
