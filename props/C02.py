"""C02 - section, list and rule structure follows the nesting model: inductive one-step lemmas (E1) + regex lemma (E2)."""
from __future__ import annotations

import itertools
import os
import re

import z3

from vf import common as C
from vf import resym as R
from vf import xh

H = os.path.join(C.VERIF, "harness", "C02_steps.py")


def shapes(maxlen):
    """marker-length chains: non-empty subsets of {1..maxlen} (increasing) plus the empty chain"""
    out = [()]
    for k in range(1, maxlen + 1):
        out += list(itertools.combinations(range(1, maxlen + 1), k))
    return out


def gen(quick: bool) -> str:
    out = ['''
def nest_begline(o0: bool, o1: bool, o2: bool, o3: bool, o4: bool, o5: bool) -> bool:
    """
    post: _
    """
    return begline_nesting(o0, o1, o2, o3, o4, o5)


def replay_nest_begline(o0, o1, o2, o3, o4, o5):
    return replay_begline_nesting(o0, o1, o2, o3, o4, o5)


def carry2_flags(pre_parse: bool, bol: bool, wsp: bool, supp: bool) -> bool:
    """
    post: _
    """
    return carry_over2(pre_parse, bol, wsp, supp)


def replay_carry2_flags(pre_parse, bol, wsp, supp):
    return replay_carry_over2(pre_parse, bol, wsp, supp)
''']
    ML = 2 if quick else 4  # deepest open marker
    TL = 3 if quick else 5  # token length
    for lens in shapes(ML):
        k = max(lens) if lens else 0
        tag = "c" + ("".join(map(str, lens)) or "0")
        dpre = f"len(deep) == {k}" + "".join(f' and deep[{i}] in MK' for i in range(k))
        mk = f"chain(deep, {list(lens)!r})"
        for L in range(1, 7):
            out.append(f'''
def head_{tag}_L{L}(mask: int, deep: str) -> bool:
    """
    pre: 0 <= mask < 64 and {dpre}
    post: _
    """
    return heading_step(mask, {L}, {mk})


def replay_head_{tag}_L{L}(mask, deep):
    return replay_doc(canonical_doc(mask, {mk}, "=" * {L} + "n" + "=" * {L}))
''')
        out.append(f'''
def hline_{tag}(mask: int, deep: str) -> bool:
    """
    pre: 0 <= mask < 64 and {dpre}
    post: _
    """
    return hline_step(mask, {mk})


def replay_hline_{tag}(mask, deep):
    return replay_doc(canonical_doc(mask, {mk}, "----"))
''')
        for lt in range(1, TL + 1):
            tpre = f"len(tok) == {lt}" + "".join(f' and tok[{i}] in MK' for i in range(lt))
            out.append(f'''
def list_{tag}_t{lt}(has_section: bool, deep: str, tok: str) -> bool:
    """
    pre: {dpre}
    pre: {tpre}
    post: _
    """
    return list_step(has_section, {mk}, tok)


def replay_list_{tag}_t{lt}(has_section, deep, tok):
    return replay_doc(canonical_doc(4 if has_section else 0, {mk}, tok + "y"))
''')
        out.append(f'''
def fill_{tag}(has_section: bool, deep: str, ch: str) -> bool:
    """
    pre: {dpre}
    pre: len(ch) == 1 and ch[0] in "ab1"
    post: _
    """
    return filler_step(has_section, {mk}, ch)


def replay_fill_{tag}(has_section, deep, ch):
    return replay_doc(canonical_doc(4 if has_section else 0, {mk}, ch))
''')
    for L in range(1, 7):
        out.append(f'''
def headpre_L{L}(mask: int) -> bool:
    """
    pre: 0 <= mask < 64
    post: _
    """
    return heading_pre_step(mask, {L})


def replay_headpre_L{L}(mask):
    return replay_doc(canonical_pre_doc(mask, "=" * {L} + "n" + "=" * {L}))
''')
    out.append('''
def hlinepre_all(mask: int) -> bool:
    """
    pre: 0 <= mask < 64
    post: _
    """
    return hline_pre_step(mask)


def replay_hlinepre_all(mask):
    return replay_doc(canonical_pre_doc(mask, "----"))
''')
    for L in range(1, 7):
        out.append(f'''
def hend_L{L}(mask: int) -> bool:
    """
    pre: 0 <= mask < 64
    post: _
    """
    return heading_end_step(mask, {L})


def replay_hend_L{L}(mask):
    return replay_doc(canonical_doc(mask, [], "=" * {L} + "h" + "=" * {L}))
''')
    for L in range(1, 7):
        out.append(f'''
def hstray_L{L}(mask: int, in_template: bool) -> bool:
    """
    pre: 0 <= mask < 64
    post: _
    """
    return stray_heading_end_step(mask, {L}, in_template)


def replay_hstray_L{L}(mask, in_template):
    return replay_stray_heading_end(mask, {L}, in_template)
''')
    return "\n".join(out)


def e2_line_classes(rep: C.Report) -> None:
    """Ob6: the tokenizer's own patterns classify the three line shapes the induction talks about."""
    ob = rep.add(C.Ob("Ob6 tokenizer patterns classify heading / list / rule lines as the induction assumes", "E2 z3 regex", [], "no length bound; heading text over [a-z ]"))
    try:
        import wikitextprocessor.parser as P

        hdr = P.header_re.pattern
        lst = [t for t in P.token_list if t.startswith("^[*")]
        hl = [t for t in P.token_list if t.startswith("^-")]
        if not (lst and hl):
            ob.verdict, ob.detail = C.NOT_ENCODABLE, "list / hline token patterns not found in token_list"
            return
        ob.functions = ["parser.py:header_re", f"parser.py:token_list {lst[0]!r}", f"parser.py:token_list {hl[0]!r}"]
        bad = R.validate([(hdr.replace("(?m)", ""), 0)], ["==a==", "= a =", "==a=", "=a==", "a", "====", "== a == ", "==a==b", "=======a======="], mode="fullmatch")
        if bad:
            ob.detail = "translator self-check failed: " + "; ".join(bad[:2])
            return
        H_ = R.to_z3(hdr.replace("(?m)", ""))
        word = z3.Plus(z3.Range("a", "z"))
        qs = []
        # every line "=^n word =^n" (1<=n<=6) is a heading line
        for n in range(1, 7):
            line = z3.Concat(z3.Re("=" * n), word, z3.Re("=" * n))
            qs.append((f"level-{n} heading line matches header_re", lambda x, line=line: [z3.InRe(x, line), z3.Not(z3.InRe(x, H_))]))
        # a list line's marker is exactly the maximal [*#]+ prefix: the list token pattern accepts every such prefix ...
        LT = R.to_z3(lst[0])
        mk = z3.Plus(z3.Union(z3.Re("*"), z3.Re("#")))
        qs.append(("every */# marker run is a list token", lambda x: [z3.InRe(x, mk), z3.Not(z3.InRe(x, LT))]))
        # ... and nothing that starts with a letter
        qs.append(("list token never starts with a letter", lambda x: [z3.InRe(x, z3.Concat(z3.Range("a", "z"), R.ANYSTAR)), z3.InRe(x, LT)]))
        HL = R.to_z3(hl[0])
        qs.append(("---- and longer are rule tokens", lambda x: [z3.InRe(x, z3.Concat(z3.Re("----"), z3.Star(z3.Re("-")))), z3.Not(z3.InRe(x, HL))]))
        qs.append(("fewer than four dashes is not a rule token", lambda x: [z3.InRe(x, z3.Loop(z3.Re("-"), 0, 3)), z3.InRe(x, HL)]))
        ok = True
        for name, q in qs:
            r, model, dt = R.solve(q, seed=C.seed())
            ob.queries += 1
            ob.paths += 1
            ob.conditions += 1
            ob.solver_s += dt
            if r == "unsat":
                ob.confirmed_conditions += 1
                if len(ob.samples) < 4:
                    ob.samples.append({"lemma": name, "result": "unsat"})
            else:
                ok = False
                ob.detail += f"{name}: {r} {R.z3str_to_py(model) if model else ''}; "
                if r == "sat":
                    # replay: the line must still produce the structure the model says
                    import sys
                    gen0, _ = xh.prepare(H)
                    mod = xh.load(gen0)
                    sig, bad_, what = mod.replay_doc(R.z3str_to_py(model) + "\n")
                    if bad_:
                        v = rep.violation(sig, what, {"doc": R.z3str_to_py(model)})
                        ob.__dict__.setdefault("_vs", []).append(v)
        vs = ob.__dict__.get("_vs", [])
        if vs:
            ob.verdict = C.VIOLATED if any(v.known is None for v in vs) else C.KNOWN
        elif ok:
            ob.verdict = C.DISCHARGED
    except R.Unsupported as e:
        ob.verdict, ob.detail = C.NOT_ENCODABLE, str(e)
    except Exception as e:  # noqa: BLE001
        ob.detail += f"{type(e).__name__}: {e}"


def run(rep: C.Report) -> None:
    quick = C.tier() == "quick"
    rep.explanation = (
        "Inductive one-step lemmas executed on the real handlers (subtitle_start_fn, subtitle_end_fn, hline_fn, list_fn, text_fn) by CrossHair: the pre-state is an "
        "ARBITRARY valid parser stack - symbolic 6-bit mask of open section levels, a chain of open (LIST, ITEM) pairs whose deepest marker has symbolic characters over "
        "{*,#} - built with the real _parser_push; the post-state must be exactly what the nesting model prescribes (which sections stay open, where the new node hangs, "
        "which list continues / nests / starts). The lemmas are closed under the state abstraction, so they compose to documents of any length. Counterexamples are replayed "
        "through Wtp.parse on the canonical document of the pre-state and compared with an independent reference builder."
    )
    rep.assumptions += ["state abstraction: only sections and */# lists, or sections and one preformatted block, are open at a line start; the last open item holds text ending in a newline", "begline representation invariant", "the induction itself is a paper argument (DESIGN.md), the checks discharge its steps"]
    rep.outside += ["; and : definition lists, list continuation with ':'", "fillers with markup, headings inside HTML or tables", "markers deeper than the bound"]
    rep.trusted += ["CrossHair 0.0.110", "z3", "reference builder in harness/C02_steps.py"]
    src = open(H).read() + "\n" + gen(quick)
    xh.check_harness(
        rep,
        H,
        {
            "^head_": dict(name="Ob1 heading step: lower-level sections stay open, everything else closes, new section hangs under the nearest lower level", functions=["parser.py:subtitle_start_fn", "parser.py:close_begline_lists", "parser.py:_parser_pop"], bounds=f"all 64 open-level masks x levels 1..6 x list chains with deepest marker <= {2 if quick else 4} symbolic chars"),
            "^headpre_|^hlinepre_": dict(name="Ob9 a heading / rule after a leading-space (preformatted) block: the block is closed where it is and the heading nests by level as always", functions=["parser.py:subtitle_start_fn", "parser.py:hline_fn", "parser.py:_parser_pop"], bounds="all 64 open-level masks x levels 1..6 (and the rule), PREFORMATTED node open on top of the sections"),
            "^carry2_": dict(name="Ob10 parse() of a heading / list / rule document does not depend on parser flags left behind by an earlier parse() on the same context (havoc)", engine="E4 havoc via CrossHair", functions=["parser.py:parse_encoded (per-call reset)"], bounds="4 symbolic flags (pre_parse, beginning_of_line, wsp_beginning_of_line, suppress_special); one document with three headings, nested lists and a rule"),
            "^hstray_": dict(name="Ob8 a heading-end token with no heading start on its line is text (no section closes, nothing moves into a heading argument)", functions=["parser.py:subtitle_end_fn"], bounds="all 64 masks x levels 1..6 x {directly in the section, inside a template argument}"),
            "^hend_": dict(name="Ob2 heading end on the same line moves the text into the heading argument", functions=["parser.py:subtitle_end_fn"], bounds="all 64 masks x levels 1..6"),
            "^hline_": dict(name="Ob3 rule closes sections deeper than level 2 and lands in the remaining top", functions=["parser.py:hline_fn"], bounds="all 64 masks x list chains"),
            "^list_": dict(name="Ob4 list step: equal marker continues the list, proper-prefix item nests, anything else starts a new list", functions=["parser.py:list_fn", "parser.py:pop_until_nth_list"], bounds=f"chains with deepest marker <= {2 if quick else 4}, token <= {3 if quick else 5} symbolic chars over {{*,#}}, with/without an open section"),
            "^nest_": dict(name="Ob7 line-start syntax (lists, headings) stays disabled while any argument list is being re-parsed, however the re-parses nest", functions=["core.py:BegLineDisableManager", "parser.py:magic_fn (with ctx.begline_disabled)"], bounds="all well-nested enter/exit sequences of length 6"),
            "^fill_": dict(name="Ob5 filler text at line start closes all lists and lands in the section", functions=["parser.py:text_fn"], bounds="same chains; one text character"),
        },
        timeout=120 if quick else 600,
        src=src,
        batch=4,
        twins=False,
    )
    e2_line_classes(rep)


def replay(r: dict) -> int:
    print(r)
    return 0
