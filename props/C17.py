"""C17 - template analysis marks exactly the closure of structure-affecting templates (bounded, solver-driven case split)."""
from __future__ import annotations

import itertools
import os

from vf import common as C
from vf import xh

H = os.path.join(C.VERIF, "harness", "C17_closure.py")


def gen(quick: bool) -> str:
    out = []

    variants = ["lc", "us", "pfx", "lcpfx"]
    counter = [0]

    def cond(tag, n, edge_hi, flags, rt, rflag, with_incR, variant=None, noself=False):
        if variant is None:  # quick: the spelling variant cycles over the conditions; thorough: every variant for every condition
            variant = variants[counter[0] % len(variants)]
            counter[0] += 1
        tag = tag + "_" + variant
        es = [f"e{i}{j}" for i in range(n) for j in range(n) if not (noself and i == j)]
        rs = [f"r{i}" for i in range(n)] if with_incR else []
        params = ", ".join([f"{e}: int" for e in es] + [f"{r}: bool" for r in rs])
        pre = " and ".join(f"0 <= {e} <= {edge_hi}" for e in es)
        inc = "[" + ", ".join("[" + ", ".join(("0" if noself and i == j else f"e{i}{j}") for j in range(n)) + "]" for i in range(n)) + "]"
        incR = "[" + ", ".join(rs) + "]" if with_incR else "[" + ", ".join(["False"] * n) + "]"
        # every second condition: the flagged templates already carry the flag before the analysis (re-analysis / pre-set flag)
        preset = tuple(bool(f) and (counter[0] % 2 == 0) for f in flags)
        if any(preset):
            tag = tag + "_pre"
        call = f"{n}, {inc}, {incR}, {list(flags)!r}, {rt}, {rflag}, {variant!r}, {preset!r}"
        out.append(f'''
def g_{tag}({params}) -> bool:
    """
    pre: {pre}
    post: _
    """
    return agree({call})


def replay_g_{tag}({", ".join(es + rs)}):
    return replay_case({call})
''')

    # n = 2: edges {absent, exact, lower-case initial}, every flag set, every redirect placement
    for flags in itertools.product([False, True], repeat=2):
        for rt in (-1, 0, 1, 2):
            for rflag in ((False, True) if rt >= 0 else (False,)):
                tag = "n2_" + "".join("1" if f else "0" for f in flags) + f"_r{'x' if rt < 0 else rt}{'f' if rflag else ''}"
                if quick:
                    cond(tag, 2, 2, flags, rt, rflag, rt >= 0)
                else:
                    for v in variants:
                        cond(tag, 2, 2, flags, rt, rflag, rt >= 0, v)
    # a redirect to a redirect: R2 -> R -> template (or dangling); R may be flagged or include templates itself
    for flags in itertools.product([False, True], repeat=2):
        for rt in ((0, 2) if quick else (0, 1, 2)):
            for rflag in (False, True):
                tag = "chain_" + "".join("1" if f else "0" for f in flags) + f"_r{rt}{'f' if rflag else ''}"
                call = f"2, [[e00, e01], [e10, e11]], [r0, r1], [q0, q1], {list(flags)!r}, {rt}, {rflag}"
                out.append(f'''
def g_{tag}(e00: int, e01: int, e10: int, e11: int, r0: bool, r1: bool, q0: bool, q1: bool) -> bool:
    """
    pre: 0 <= e00 <= 1 and 0 <= e01 <= 1 and 0 <= e10 <= 1 and 0 <= e11 <= 1
    post: _
    """
    return agree_chain({call})


def replay_g_{tag}(e00, e01, e10, e11, r0, r1, q0, q1):
    return replay_chain({call})
''')
    # n = 3: binary edges, all flag sets, no redirect (cycles that do not pass through the flagged template need three)
    for flags in itertools.product([False, True], repeat=3):
        cond("n3_" + "".join("1" if f else "0" for f in flags) + "_rx", 3, 1, flags, -1, False, False)
    if not quick:
        # single-flag sets with every redirect placement; ternary edges; four templates
        for k in range(3):
            flags = tuple(i == k for i in range(3))
            cond(f"n3t_only{k}_rx", 3, 2, flags, -1, False, False)
        for k in range(4):
            flags = tuple(i == k for i in range(4))
            cond(f"n4_only{k}_rx", 4, 1, flags, -1, False, False, noself=True)
        for k in range(3):
            flags = tuple(i == k for i in range(3))
            for rt in (0, 1, 2, 3):
                for rflag in (False, True):
                    cond(f"n3_only{k}_r{rt}{'f' if rflag else ''}", 3, 1, flags, rt, rflag, True)
    return "\n".join(out)


def run(rep: C.Report) -> None:
    quick = C.tier() == "quick"
    rep.explanation = (
        "The real analyze_templates runs on a real temporary SQLite store; CrossHair chooses the graph (case split) and the analysis then runs untraced (CrossHair would bypass get_page's lru_cache memo, which the analysis clears at specific points), under a 15 s alarm that turns non-termination into a failure. Symbolic: the inclusion matrix (per edge: absent / written as stored / "
        "written in another spelling that resolves to the same page: lower-case initial, underscore for space, namespace prefix), whether a template includes the redirect page; enumerated per condition: classifier flag set, redirect target "
        "(none / each template / dangling) and the redirect's own flag. The marked set must equal an independent least-fixpoint closure plus the redirect rule. "
        "The solver only drives the case split here (finite space, exhaustive within the bound) - the weakest use of the technique in this framework, stated as such."
    )
    rep.extra["exhaustive_within_bound"] = True
    rep.assumptions += ["the classifier reports included templates by name without namespace prefix; a name written with a lower-case initial denotes the same template (MediaWiki rule)", "redirect propagation is applied once after the closure, as the statement's 'plus' says"]
    rep.outside += ["graphs with more than 3 (thorough: 4) templates", "more than two redirect pages, chains longer than two"]
    rep.trusted += ["CrossHair 0.0.110", "z3", "sqlite3 (real)"]
    src = open(H).read() + "\n" + gen(quick)
    xh.check_harness(
        rep,
        H,
        {"^g_": dict(name="Ob1 marked set == closure + redirect rule, analysis terminates", functions=["core.py:Wtp.analyze_templates", "core.py:Wtp.set_template_pre_expand", "core.py:Wtp.get_all_pages"], bounds="n=2 templates: 3^4 inclusion matrices x 2^2 redirect inclusions x all flag sets x all redirect placements; n=3: 2^9 matrices x all flag sets (no redirect); redirect chain R2 -> R -> template/dangling with n=2: 2^4 matrices x inclusions of and by R x all flag sets x R flagged or not" + ("" if quick else "; n=3: single-flag sets x all redirect placements, 3^9 matrices for single-flag sets; n=4: 2^12 matrices without self-inclusion for single-flag sets"))},
        timeout=150 if quick else 3600,
        src=src,
        batch=2 if quick else 1,
        twins=False,
    )


def replay(r: dict) -> int:
    print(r)
    return 0
