"""C10 - the page store returns the latest version of every page under every spelling (partial)."""
from __future__ import annotations

import itertools
import os

from vf import common as C
from vf import xh

H = os.path.join(C.VERIF, "harness", "C10_store.py")


def _chars(L, first_nb=True):
    cs = []
    for i in range(L):
        cs.append(f"t[{i}] in " + ('"aAb"' if (i == 0 and first_nb) or i == L - 1 else "T"))
    return " and ".join(cs)


def gen(quick: bool) -> str:
    out = []
    Ls = [1, 2, 3] if quick else [1, 2, 3, 4]
    for ns in (10, 828, 4):
        for L in (Ls if ns != 4 else Ls[:2]):
            pre = f"    pre: len(t) == {L}\n    pre: {_chars(L)}\n"
            variants = {
                "bare": ("t", "t"),  # stored without prefix, looked up without prefix
                "prefix": ("t", "PREFIX[NS] + t"),
                "stored_prefixed": ("PREFIX[NS] + t", "t"),
                "lowerprefix": ("t", "LOWER[NS] + t"),
                "alias": ("t", "ALIAS[NS].lower() + t"),
                "canonical": ("t", "CANON[NS] + t"),  # the canonical (English) namespace name
                "underscore": ('t.replace("_", " ")', 't.replace(" ", "_")'),
                "lcfirst": ("_up(t[0]) + t[1:]", "_lo(t[0]) + t[1:]"),
            }
            for vn, (stored, lookup) in variants.items():
                stored_e, lookup_e = stored.replace("NS", str(ns)), lookup.replace("NS", str(ns))
                out.append(f'''
def sp_{vn}_{ns}_{L}(t: str) -> bool:
    """
{pre}    post: _
    """
    return _found({stored_e}, {lookup_e}, {ns})


def replay_sp_{vn}_{ns}_{L}(t):
    return _replay_spelling({stored_e}, {lookup_e}, {ns}, True)
''')
            if L >= 2:
                # negative twin: a later letter in another case is a different page
                for pos in range(1, L):
                    out.append(f'''
def sp_casesensitive_{ns}_{L}_{pos}(t: str) -> bool:
    """
{pre}    pre: t[{pos}] in "aA"
    post: _
    """
    other = t[:{pos}] + ("A" if t[{pos}] == "a" else "a") + t[{pos + 1}:]
    k, kns = stored_key(t, {ns})
    return k not in looked_up(other, {ns}) and k not in looked_up(_lo(other[0]) + other[1:], {ns})


def replay_sp_casesensitive_{ns}_{L}_{pos}(t):
    other = t[:{pos}] + ("A" if t[{pos}] == "a" else "a") + t[{pos + 1}:]
    a = _replay_spelling(t, other, {ns}, False)
    b = _replay_spelling(t, other[0].lower() + other[1:], {ns}, False)
    return [a, b]
''')
    # main namespace: prefix 'Main:' optional, titles fully case-sensitive
    for L in Ls:
        pre = f"    pre: len(t) == {L}\n    pre: {_chars(L)}\n"
        out.append(f'''
def sp_main_{L}(t: str) -> bool:
    """
{pre}    post: _
    """
    return _found(t, t, 0) and _found(t, "Main:" + t, 0) and _found(t, t.replace(" ", "_"), 0)


def replay_sp_main_{L}(t):
    return [_replay_spelling(t, t, 0, True), _replay_spelling(t, "Main:" + t, 0, True), _replay_spelling(t, t.replace(" ", "_"), 0, True)]
''')
    # histories on the real store: first operation fixed per condition, the rest symbolic.
    # quick: length 3 over all 10 operation kinds; thorough: length 4 over all 10, and length 5 over the 8 kinds
    # CORE5 (without body read, content-model re-add and the lower-case redirect spelling): 16^4 histories per condition
    CORE5 = [0, 1, 2, 3, 4, 6, 8, 10]
    plans = [(3, list(range(11)), "")] if quick else [(4, list(range(11)), ""), (5, CORE5, "c")]
    for n, kinds, sfx in plans:
        for op0 in kinds:
            for t0 in range(2):
                ps = ", ".join(f"o{i}: int, t{i}: int" for i in range(1, n))
                pre = " and ".join(f"0 <= o{i} < {len(kinds)} and 0 <= t{i} < 2" for i in range(1, n))
                ops = f"[({op0}, {t0}), " + ", ".join(f"(o{i}, t{i})" for i in range(1, n)) + f"], KINDS{sfx}"
                out.append(f'''
KINDS{sfx} = {kinds!r}


def hist{sfx}{n}_{op0}_{t0}({ps}) -> bool:
    """
    pre: {pre}
    post: _
    """
    return run_history({ops})


def replay_hist{sfx}{n}_{op0}_{t0}({", ".join(f"o{i}, t{i}" for i in range(1, n))}):
    return replay_history({ops})
''')
    out.append('''
def reopen_all(place: int, n_pages: int, how: int) -> bool:
    """
    pre: 0 <= place < len(DB_PLACES) and 1 <= n_pages <= len(REOPEN_PAGES) and 0 <= how < 3
    post: _
    """
    return reopen_step(place, n_pages, how)


def replay_reopen_all(place, n_pages, how):
    return replay_reopen(place, n_pages, how)


def _up(c):
    # explicit case mapping of the title alphabet (str.upper()/lower() on a symbolic character are slow in CrossHair)
    return "A" if c == "a" else ("B" if c == "b" else c)


def _lo(c):
    return "a" if c == "A" else c


def _replay_spelling(stored, lookup, ns, expect_found):
    c = Wtp(quiet=True, quiet_output=True)
    c.add_page(stored, ns, "body-" + stored)
    p = c.get_page(lookup, ns)
    found = p is not None and p.body == "body-" + stored
    sig = f"add_page({stored!r}, {ns}, ...); get_page({lookup!r}, {ns})"
    if expect_found:
        return (sig, not found, "the page is not found under this spelling")
    return (sig, found, "a title differing in the case of a later letter finds the page")
''')
    return "\n".join(out)


def run(rep: C.Report) -> None:
    quick = C.tier() == "quick"
    rep.explanation = (
        "Spelling agreement: the SQLite connection is replaced by a recorder; add_page(t, ns) yields the key actually written, the un-memoised get_page "
        "yields the titles actually queried; CrossHair checks for every symbolic title (characters over {a,A,_,space,b}) and every spelling variant "
        "(prefix given/omitted/lower-case/alias, underscore vs space, lower-case first letter) that the written key is among the queried titles, and that a "
        "title differing in the case of a later letter is not. Read-after-write: on the REAL SQLite store and the REAL lru_cache, every history of "
        "3 (thorough: 4, and 5 over a core of 7 kinds) operations from {add v1, add v2, add v1 with another content model, add redirect (target written in full / without the prefix / lower-case), get, exists, body, resolve-redirect, lookup of the same spelling in the main namespace (must stay absent)} x 2 titles equals a dict model; the first operation is fixed "
        "per condition and the solver drives the case split over the rest (said openly: finite enumeration by forks). CrossHair bypasses functools.lru_cache wrappers "
        "while tracing, so after the solver has chosen a history its operations run untraced, on the real memo; all lru_cache memos found on the class are cleared between histories."
    )
    rep.assumptions += ["recorder stub answers 'no rows'; SQL text is not interpreted (only the bound values are compared)", "redirect resolution is one hop within the same namespace"]
    rep.outside += ["a database file placed directly in the temp directory (deleted on close by design)", "crash consistency of the SQLite file", "titles with ':' inside, non-ASCII titles", "histories longer than the bound"]
    rep.trusted += ["CrossHair 0.0.110", "z3", "sqlite3 (real, for the history conditions)"]
    src = open(H).read() + "\n" + gen(quick)
    xh.check_harness(rep, H, {
            "^sp_": dict(name="Ob1 add_page key is among the titles get_page queries, for every spelling variant; later-letter case is significant", functions=["core.py:Wtp.add_page", "core.py:Wtp.get_page"], bounds=f"titles of 1..{3 if quick else 4} symbolic characters over {{a,A,_,space,b}}; namespaces Template, Module, Project (local name Wiktionary), Main"),
        }, timeout=180 if quick else 600, src=src, batch=4, twins=False, select="^sp_")
    xh.check_harness(rep, H, {
            "^reopen_": dict(name="Ob4 committed content is identical when read through a new context on the same file (close_db_conn / commit, then reopen)", functions=["core.py:Wtp.close_db_conn", "core.py:Wtp.create_db", "core.py:Wtp.add_page", "core.py:Wtp.get_all_pages"], bounds="database file in 5 places relative to tempfile.gettempdir() (sub-directory, deeper, outside, sibling directory whose name extends the temp directory's, temp-file-like name in a sub-directory) x 1..3 pages (text, template, redirect) x {close then reopen, commit and reopen while open, close-reopen twice}; a file directly in the temp directory is the throw-away database and is deleted on close by design (not claimed); solver-driven case split, real SQLite untraced"),
        }, timeout=120 if quick else 300, src=src, batch=1, twins=False, select="^reopen_")
    # the history conditions only case-split in the solver and run the operations untraced (see harness): ~25 ms per history
    xh.check_harness(rep, H, {
            "^hist": dict(name="Ob2/Ob3 read-after-write and one-hop redirect on the real store", functions=["core.py:Wtp.add_page", "core.py:Wtp.get_page", "core.py:Wtp.page_exists", "core.py:Wtp.get_page_resolve_redirect"], bounds="all histories of 3 operations over 11 operation kinds x 2 titles" if quick else "all histories of 4 operations over 11 operation kinds x 2 titles, and of 5 operations over 8 kinds (add v1/v2, redirect full/bare, get, exists, resolve, main-namespace lookup) x 2 titles"),
        }, timeout=90 if quick else 3600, src=src, batch=4 if quick else 1, twins=False, select="^hist")


def replay(r: dict) -> int:
    print(r)
    return 0
