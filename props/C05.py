"""C05 - expand() terminates and reports failures in-band (partial: parser-function totality, loop detector, depth guard)."""
from __future__ import annotations

import ast
import os
import re
import time

import z3

from vf import astpaths as AP
from vf import common as C
from vf import xh

HT = os.path.join(C.VERIF, "harness", "C05_tot.py")
# implementations behind the network, the clock or the dateparser package (stated outside the claim)
EXCLUDED_IMPL = re.compile(r"^(property_fn|statements_fn|time_fn|timel_fn|dateformat_fn|language_fn|current.*_fn|local(?!url).*_fn|fullurl_fn|revision.*_fn|number_of_.*_fn)$")


def distinct_functions():
    import wikitextprocessor.parserfns as P

    seen, out, excluded = set(), [], []
    for name, f in P.PARSER_FUNCTIONS.items():
        fn = f[0] if isinstance(f, tuple) else f
        if id(fn) in seen:
            continue
        seen.add(id(fn))
        if EXCLUDED_IMPL.match(fn.__name__):
            excluded.append(f"{name} ({fn.__name__})")
            continue
        out.append((name, fn.__name__))
    return out, excluded


def gen_tot(quick: bool):
    fns, excluded = distinct_functions()
    L = 2 if quick else 3
    arities = [0, 3] if quick else [0, 1, 2, 3, 4]
    out = []
    for i, (name, impl) in enumerate(fns):
        tag = re.sub(r"\W", "_", impl)
        for ar in arities:
            ps = [f"a{k}" for k in range(ar)]
            params = ", ".join(f"{p}: str" for p in ps)
            pre = " and ".join(f"len({p}) <= {L}" for p in ps) or "True"
            out.append(f'''
def tot_{tag}_{ar}({params}) -> bool:
    """
    pre: {pre}
    post: _
    """
    return call({name!r}, [{", ".join(ps)}])


def replay_tot_{tag}_{ar}({", ".join(ps)}):
    return _replay_args({name!r}, [{", ".join(ps)}])
''')
        ar = 4 if impl in ("pad_fn", "explode_fn") else 3
        ps = [f"e{k}" for k in range(ar)]
        params = ", ".join(f"{p}: str" for p in ps)
        pre = " and ".join(f"len({p}) <= {L}" for p in ps)
        cargs = [chr(120 + k) for k in range(ar)]
        out.append(f'''
def totx_{tag}({params}) -> bool:
    """
    pre: {pre}
    post: _
    """
    return callx({name!r}, {cargs!r}, [{", ".join(ps)}])


def replay_totx_{tag}({", ".join(ps)}):
    return _replay_x({name!r}, {cargs!r}, [{", ".join(ps)}])
''')
    return "\n".join(out), fns, excluded


HL = os.path.join(C.VERIF, "harness", "C05_loop.py")


# ------------------------------------------------------------------ Ob5: depth guard dominates every recursive call (E3)
def _is_stack(n):
    return isinstance(n, ast.Attribute) and n.attr == "expand_stack"


def _guard_test(t):
    """len(<...>.expand_stack) >= <int constant>  (or >)"""
    if isinstance(t, ast.Compare) and len(t.ops) == 1 and isinstance(t.ops[0], (ast.GtE, ast.Gt)):
        l, r = t.left, t.comparators[0]
        if isinstance(l, ast.Call) and isinstance(l.func, ast.Name) and l.func.id == "len" and l.args and _is_stack(l.args[0]) and isinstance(r, ast.Constant) and isinstance(r.value, int):
            return r.value
    return None


def depth_guard(rep: C.Report) -> None:
    ob = rep.add(C.Ob("Ob5 depth guard dominates every recursive expansion of a template/parser-function call", "E3 AST path encoder + z3", [], "all syntactic paths through the kind == 'T' branch of expand_recurse, unbounded input"))
    try:
        tree = ast.parse(open(os.path.join(C.SRC, "core.py")).read())
        fns = [f for q, f in AP.functions(tree) if q[-1] == "expand_recurse"]
        if len(fns) != 1:
            ob.verdict, ob.detail = C.NOT_ENCODABLE, f"expand_recurse found {len(fns)} times"
            return
        fn = fns[0]
        ob.functions.append(f"core.py:Wtp.expand.expand_recurse@{fn.lineno}")
        limits = []

        def branch(test, pol):
            v = _guard_test(test)
            if v is not None:
                limits.append(v)
                return {"checked": 1} if not pol else None
            if isinstance(test, ast.Compare) and isinstance(test.left, ast.Name) and test.left.id == "kind" and isinstance(test.comparators[0], ast.Constant) and test.comparators[0].value == "T" and isinstance(test.ops[0], ast.Eq):
                return {"inT": 1} if pol else None
            return None

        RECURSIVE = {"expand_recurse", "expand_parserfn", "invoke_fn", "call_parser_function"}

        def probe(stmt):
            if isinstance(stmt, (ast.If, ast.For, ast.While, ast.Try, ast.With)):
                return None
            for n in AP._walk_no_defs(stmt):
                if isinstance(n, ast.Call) and isinstance(n.func, ast.Name) and n.func.id in RECURSIVE:
                    return n.func.id
            return None

        enc = AP.Encoder(fn, ["checked", "inT"], lambda n: None, branch=branch, probe=probe).run()
        if not limits:
            ob.detail += "no plain `len(expand_stack) >= N` test found in expand_recurse; "
        t0 = time.time()
        bad = []
        for pr in enc.probes:
            s = z3.Solver()
            s.set("timeout", 20000)
            s.add(pr.guard, pr.counters["inT"] >= 1, pr.counters["checked"] == 0)
            r = str(s.check())
            ob.queries += 1
            ob.paths += 1
            ob.conditions += 1
            if r == "unsat":
                ob.confirmed_conditions += 1
                if len(ob.samples) < 4:
                    ob.samples.append({"probe": f"call of {pr.label} at core.py:{pr.line}", "query": "reachable in T-branch with guard not passed", "result": "unsat"})
            else:
                bad.append((pr.label, pr.line, r))
        ob.solver_s = time.time() - t0
        rep.extra["depth_limit_constants"] = sorted(set(limits))
        if not enc.probes:
            ob.verdict, ob.detail = C.NOT_ENCODABLE, "no recursive call site found"
            return
        if not bad and limits and not C.distrust():
            ob.verdict = C.DISCHARGED
            return
        # replay: a chain of distinct templates deeper than any sane limit must produce the in-band error, not an exception
        sig, reproduced, what = replay_deep_chain()
        ob.samples.append({"bypass_paths": [f"{l}@{ln}" for l, ln, _ in bad][:6], "replayed": reproduced})
        if reproduced:
            v = rep.violation(sig, what, {"kind": "deep-chain"})
            ob.verdict = C.VIOLATED if v.known is None else C.KNOWN
        else:
            ob.detail += f"guard bypass on syntactic path(s) {bad[:4]} but a 400-deep template chain and 300..1200 calls nested through arguments / names are still cut in-band -> inconclusive"
    except Exception as e:  # noqa: BLE001
        ob.detail += f"{type(e).__name__}: {e}"


def loop_check_order(rep: C.Report) -> None:
    """Ob6 (E3): the template-loop test runs before the call's arguments are expanded.  detect_expand_template_loop ignores
    patterns that start with an ARGVAL- frame, so a cycle that closes through an argument is only cut if the called template is
    already on the path while its arguments expand."""
    ob = rep.add(C.Ob("Ob6 the template-loop test precedes the expansion of the call's arguments", "E3 AST path encoder + z3", [], "all syntactic paths of one iteration of expand_recurse's cookie loop"))
    try:
        tree = ast.parse(open(os.path.join(C.SRC, "core.py")).read())
        fns = [f for q, f in AP.functions(tree) if q[-1] == "expand_recurse"]
        if len(fns) != 1:
            ob.verdict, ob.detail = C.NOT_ENCODABLE, f"expand_recurse found {len(fns)} times"
            return
        fn = fns[0]
        arg_loops = [n for n in ast.walk(fn) if isinstance(n, ast.For) and ast.unparse(n.iter).replace(" ", "").startswith("map(str,args[1:])")]
        if len(arg_loops) != 1:
            ob.verdict, ob.detail = C.NOT_ENCODABLE, f"argument loop found {len(arg_loops)} times"
            return
        inside = {id(n) for n in ast.walk(arg_loops[0])}
        ob.functions.append(f"core.py:Wtp.expand.expand_recurse@{fn.lineno} (argument loop @{arg_loops[0].lineno})")

        def delta(n):
            if isinstance(n, ast.Call) and isinstance(n.func, ast.Name) and n.func.id == "detect_expand_template_loop":
                return {"lc": 1}
            return None

        def probe(stmt):
            if isinstance(stmt, (ast.If, ast.For, ast.While, ast.Try, ast.With)) or id(stmt) not in inside:
                return None
            for n in AP._walk_no_defs(stmt):
                if isinstance(n, ast.Call) and isinstance(n.func, ast.Name) and n.func.id == "expand_recurse":
                    return "argument expansion"
            return None

        enc = AP.Encoder(fn, ["lc"], delta, probe=probe).run()
        if not enc.probes:
            ob.verdict, ob.detail = C.NOT_ENCODABLE, "no expand_recurse call inside the argument loop"
            return
        bad = []
        for pr in enc.probes:
            s = z3.Solver()
            s.add(pr.guard, pr.counters["lc"] == 0)
            r = str(s.check())
            ob.queries += 1
            ob.paths += 1
            ob.conditions += 1
            if r == "unsat":
                ob.confirmed_conditions += 1
                ob.samples.append({"probe": f"{pr.label} at core.py:{pr.line}", "query": "reachable with the loop test not yet executed", "result": "unsat"})
            else:
                bad.append(pr.line)
        if not bad and not C.distrust():
            ob.verdict = C.DISCHARGED
            return
        sig, reproduced, what = replay_arg_cycle()
        ob.samples.append({"argument_expansion_before_loop_test_at": bad, "replayed": reproduced})
        if reproduced:
            v = rep.violation(sig, what, {"kind": "arg-cycle"})
            ob.verdict = C.VIOLATED if v.known is None else C.KNOWN
        else:
            ob.detail = f"arguments are expanded before the loop test on path(s) through line(s) {bad}, but the argument-cycle replay is still cut by the loop detector -> inconclusive"
    except Exception as e:  # noqa: BLE001
        ob.detail += f"{type(e).__name__}: {e}"


def replay_arg_cycle():
    """A cycle that closes through an argument must be reported as a template loop (not only by the depth limit)
    and in bounded time."""
    import signal
    from vf.wtpfix import new_ctx, close

    ctx = new_ctx(templates={"wrap": "{{{1}}}", "lin": "{{wrap|{{lin}}}}", "pair": "{{wrap|{{pair}}{{pair}}}}"})

    class Timeout(Exception):
        pass

    def onalarm(signum, frame):
        raise Timeout()

    out = None
    old = signal.signal(signal.SIGALRM, onalarm)
    try:
        for doc in ("{{lin}}", "{{pair}}"):
            ctx.start_page("T")
            signal.alarm(20)
            try:
                r = ctx.expand(doc)
                signal.alarm(0)
                if "Template loop detected" not in r:
                    out = (f"expand({doc!r}) with Template:wrap = '{{{{{{1}}}}}}' and Template:{doc[2:-2]} calling itself inside wrap's argument", True, f"the cycle is not reported as a template loop; result starts {r[:80]!r}")
                    break
            except Timeout:
                out = (f"expand({doc!r}) with a template calling itself inside another template's argument", True, "expand() does not return within 20 s")
                break
            except Exception as e:  # noqa: BLE001
                signal.alarm(0)
                out = (f"expand({doc!r})", True, f"raises {type(e).__name__}: {e}")
                break
    finally:
        signal.alarm(0)
        signal.signal(signal.SIGALRM, old)
        close(ctx)
    return out or ("expand('{{lin}}') / expand('{{pair}}')", False, "")


def replay_deep_chain(depth: int = 400):
    """A chain of `depth` distinct templates (no cycle) under several option sets: every run must return a string
    containing the in-band 'too deep recursion' element."""
    import sys
    from vf.wtpfix import new_ctx, close

    names = [f"c{i}" for i in range(depth + 1)]
    ctx = new_ctx(templates={f"c{i}": "{{c%d}}" % (i + 1) for i in range(depth)} | {f"c{depth}": "end"})
    for i in range(depth + 1):
        ctx.add_page(f"Template:d{i}", 10, ("{{d%d}}" % (i + 1)) if i < depth else "end", need_pre_expand=True)
    ctx.db_conn.commit()
    old = sys.getrecursionlimit()
    out = None
    try:
        for doc, kw, kwt in [
            ("{{c0}}", {}, ""),
            ("{{c0}}", {"templates_to_expand": set(names)}, "templates_to_expand=<all chain members>"),
            ("{{d0}}", {"pre_expand": True}, "pre_expand=True (chain members flagged need_pre_expand)"),
            ("{{#if:1|{{c0}}}}", {}, ""),
        ]:
            ctx.start_page("T")
            try:
                r = ctx.expand(doc, **kw)
                bad = "too deep recursion" not in r
                what = f"a {depth}-deep chain of distinct templates is expanded completely (no depth limit): result ends {r[-40:]!r}"
            except RecursionError:
                bad, what = True, f"expand() raises RecursionError on a {depth}-deep chain of distinct templates"
            except Exception as e:  # noqa: BLE001
                bad, what = True, f"expand() raises {type(e).__name__}: {e}"
            if bad:
                out = (f"expand({doc!r}{', ' + kwt if kwt else ''}) with templates c0 -> c1 -> ... -> c{depth}", True, what)
                break
        # calls nested through their ARGUMENTS or NAMES on one page (no template body involved): the limit is also what
        # keeps the interpreter's own recursion bounded for these
        if out is None:
            for opener, closer, n in (("{{#if:x|", "}}", 300), ("{{#ifeq:a|a|", "}}", 300), ("{{#switch:a|a=", "}}", 300), ("{{#iferror:x|y|", "}}", 300), ("{{c%d|" % depth, "}}", 300), ("{{lc:", "}}", 1200), ("{{#if:", "|a|b}}", 300)):
                ctx.start_page("T")
                ctx.expand_stack = []
                try:
                    r = ctx.expand(opener * n + "x" + closer * n)
                    bad, what = not isinstance(r, str), "does not return a string"
                except RecursionError:
                    bad, what = True, f"expand() raises RecursionError for {n} calls nested in one another (the depth limit does not cut the nesting in-band)"
                except Exception as e:  # noqa: BLE001
                    bad, what = True, f"expand() raises {type(e).__name__}: {e}"
                if bad:
                    out = (f"expand({opener!r} * {n} + 'x' + {closer!r} * {n})", True, what)
                    break
    finally:
        sys.setrecursionlimit(old)
        close(ctx)
    return out or (f"expand('{{{{c0}}}}') with templates c0 -> ... -> c{depth}", False, "")


# ------------------------------------------------------------------ Ob3: namespace-table indexing
def namespace_index(rep: C.Report) -> None:
    """Every `NAMESPACE_DATA[<computed key>]` in the talk/namespace magic words is dominated by a membership test of
    the same key (E3 dominance); if not, z3 picks a key of a shipped namespaces.json for which the computed key is absent."""
    import glob
    import json

    ob = rep.add(C.Ob("Ob3 namespace-table lookups with computed keys are guarded", "E3 AST dominance + z3 over the shipped namespace tables", [], "talkpagename_fn, talkspace_fn; every data/*/namespaces.json"))
    try:
        tree = ast.parse(open(os.path.join(C.SRC, "parserfns.py")).read())
        unguarded = []
        for q, fn in AP.functions(tree):
            if fn.name not in ("talkpagename_fn", "talkspace_fn"):
                continue
            ob.functions.append(f"parserfns.py:{fn.name}@{fn.lineno}")
            subs = [n for n in ast.walk(fn) if isinstance(n, ast.Subscript) and isinstance(n.value, ast.Attribute) and n.value.attr == "NAMESPACE_DATA" and not isinstance(n.slice, ast.Constant)]
            for sub in subs:
                key = ast.unparse(sub.slice)

                def branch(test, pol, key=key):
                    # `<key> in X.NAMESPACE_DATA` (true branch) / `<key> not in ...` (false branch), also inside and/or
                    for c in ast.walk(test):
                        if isinstance(c, ast.Compare) and len(c.ops) == 1 and ast.unparse(c.left) == key and isinstance(c.comparators[0], ast.Attribute) and c.comparators[0].attr == "NAMESPACE_DATA":
                            conj = not (isinstance(test, ast.BoolOp) and isinstance(test.op, ast.Or))
                            if isinstance(c.ops[0], ast.In) and pol and conj:
                                return {"guard": 1}
                            if isinstance(c.ops[0], ast.NotIn) and not pol and (test is c or (isinstance(test, ast.BoolOp) and isinstance(test.op, ast.Or))):
                                return {"guard": 1}
                    return None

                def probe(stmt, sub=sub):
                    if isinstance(stmt, (ast.If, ast.For, ast.While, ast.Try, ast.With)):
                        return None
                    return "index" if any(n is sub for n in ast.walk(stmt)) else None

                enc = AP.Encoder(fn, ["guard"], lambda n: None, branch=branch, probe=probe).run()
                for pr in enc.probes:
                    s = z3.Solver()
                    s.add(pr.guard, pr.counters["guard"] == 0)
                    r = str(s.check())
                    ob.queries += 1
                    ob.paths += 1
                    ob.conditions += 1
                    if r == "unsat":
                        ob.confirmed_conditions += 1
                        ob.samples.append({"lookup": f"{fn.name}: NAMESPACE_DATA[{key}] at parserfns.py:{pr.line}", "dominated_by_membership_test": True})
                    else:
                        unguarded.append((fn.name, key, pr.line))
        if not ob.functions:
            ob.verdict, ob.detail = C.NOT_ENCODABLE, "talkpagename_fn / talkspace_fn not found"
            return
        if not unguarded and not C.distrust():
            ob.verdict = C.DISCHARGED
            return
        # z3 over the shipped key sets: exists prefix p in keys with p + " talk" not in keys
        files = sorted(glob.glob(os.path.join(C.SRC, "data", "*", "namespaces.json")))
        witness = None
        for f in files:
            keys = list(json.load(open(f)).keys())
            p = z3.String("p")
            s = z3.Solver()
            s.add(z3.Or(*[p == z3.StringVal(k) for k in keys]))
            s.add(z3.And(*[z3.Concat(p, z3.StringVal(" talk")) != z3.StringVal(k) for k in keys]))
            ob.queries += 1
            if str(s.check()) == "sat":
                witness = (os.path.basename(os.path.dirname(f)), s.model()[p].as_string())
                break
        if witness is None:
            ob.verdict = C.DISCHARGED
            ob.detail = "unguarded lookup, but every shipped table has a '<key> talk' entry for every key"
            return
        lang, pfx = witness
        from wikitextprocessor import Wtp

        hit = None
        for word in ("TALKPAGENAME", "TALKSPACE"):
            c = Wtp(quiet=True, quiet_output=True, lang_code=lang)
            c.start_page(pfx + ":x")
            try:
                c.expand("{{" + word + "}}")
            except Exception as e:  # noqa: BLE001
                hit = (word, e)
                break
        ob.samples.append({"unguarded": unguarded, "z3_witness": witness, "replayed": bool(hit)})
        if hit:
            v = rep.violation(f"lang_code={lang!r} page {pfx + ':x'!r}: expand('{{{{{hit[0]}}}}}')", f"expand() raises {type(hit[1]).__name__}: {hit[1]}", {"lang": lang, "title": pfx + ":x", "word": hit[0]})
            ob.verdict = C.VIOLATED if v.known is None else C.KNOWN
        else:
            ob.detail += f"unguarded lookup {unguarded} with witness {witness} does not raise through expand() -> inconclusive"
    except Exception as e:  # noqa: BLE001
        ob.detail += f"{type(e).__name__}: {e}"


HO = os.path.join(C.VERIF, "harness", "C05_ops.py")
EXC_WITNESSES = [
    ("0^-1", "ValueError: pow domain"), ("ln 0", "ValueError: log domain"), ("acos 2", "ValueError"), ("asin 2", "ValueError"), ("-1^0.5", "ValueError"),
    ("10^1000", "OverflowError: pow"), ("exp 1000", "OverflowError"), ("floor(10^400)", "OverflowError int->float"), ("10^400/10^400", "OverflowError: int division"),
    ("5 round 1.5", "TypeError: round digits"), ("2^1023*2", "inf result: final conversion"), ("9e307*10.0", "inf result"), ("1.5e308+1.5e308", "inf result"),
    ("2^1023*2-2^1023*2", "nan result: final conversion"), ("2^1023/0.1", "inf"), ("ceil(2^1023*2)", "OverflowError ceil(inf)"), ("trunc(2^1023*2-2^1023*2)", "ValueError trunc(nan)"),
    ("(" * 200 + "1" + ")" * 200, "RecursionError: 200 nested parentheses"), ("-" * 3000 + "1", "RecursionError: 3000 unary minus signs"),
    ("1 mod 0.0", "mod by float zero"), ("tan 1e308", "large"), ("sqrt(2^1023*2)", "inf"), ("(2^1023*2) round 2", "round(inf)"), ("1e400", "huge literal"),
]


def expr_barrier(rep: C.Report):
    """AST facts about expr_fn: (1) the exception classes caught around every top-level statement that runs the
    evaluator or converts its result; (2) uncovered statements.  Returns (covered class names or None, uncovered list)."""
    tree = ast.parse(open(os.path.join(C.SRC, "parserfns.py")).read())
    fns = [f for q, f in AP.functions(tree) if q == ["expr_fn"]]
    if len(fns) != 1:
        return None, None, None
    fn = fns[0]
    nested = {n.name for n in fn.body if isinstance(n, ast.FunctionDef)}
    risky_names = nested | {"int", "float", "round"}

    def risky(stmt):
        for n in AP._walk_no_defs(stmt):
            if isinstance(n, ast.Call):
                f = n.func
                if isinstance(f, ast.Name) and f.id in risky_names and f.id not in ("get_token", "unget_token", "expr_error"):
                    return True
                if isinstance(f, ast.Attribute) and isinstance(f.value, ast.Name) and f.value.id == "math":
                    return True
        return False

    def handler_classes(t: ast.Try):
        out = set()
        for h in t.handlers:
            if h.type is None:
                out.add("BaseException")
            elif isinstance(h.type, ast.Tuple):
                out |= {ast.unparse(e) for e in h.type.elts}
            else:
                out.add(ast.unparse(h.type))
            # a handler that re-raises does not count
            if any(isinstance(x, ast.Raise) for x in ast.walk(h)):
                return set()
        return out

    covered, uncovered = None, []

    def visit(stmts, classes):
        nonlocal covered
        for s in stmts:
            if isinstance(s, ast.FunctionDef):
                continue
            if isinstance(s, ast.Try):
                hc = handler_classes(s) | (classes or set())
                visit(s.body, hc)
                visit(s.orelse, classes)
                visit(s.finalbody, classes)
                for h in s.handlers:
                    visit(h.body, classes)
                continue
            if isinstance(s, (ast.If, ast.For, ast.While, ast.With)):
                hdr = s.test if isinstance(s, (ast.If, ast.While)) else (s.iter if isinstance(s, ast.For) else None)
                if hdr is not None and risky(hdr):
                    (uncovered.append(f"line {s.lineno}: {ast.unparse(hdr)[:60]}") if not classes else None)
                    covered = classes if covered is None else (covered & classes if classes else set())
                visit(s.body, classes)
                visit(getattr(s, "orelse", []), classes)
                continue
            if risky(s):
                if not classes:
                    uncovered.append(f"line {s.lineno}: {ast.unparse(s)[:60]}")
                    covered = set()
                else:
                    covered = set(classes) if covered is None else covered & classes
    visit(fn.body, set())
    return covered, uncovered, fn


def _covers(classes: set, exc: type) -> bool:
    import builtins

    for c in classes:
        k = getattr(builtins, c, None)
        if isinstance(k, type) and issubclass(exc, k):
            return True
    return False


def gen_ops(classes: set) -> str:
    import wikitextprocessor.parserfns as P

    raises = ", ".join(sorted(classes)) if classes else ""
    rl = f"    raises: {raises}\n" if raises else ""
    out = []
    for tname in ["unary_fns", "binary_e_fns", "binary_pow_fns", "binary_mul_fns", "binary_add_fns", "binary_round_fns", "binary_cmp_fns", "binary_and_fns", "binary_or_fns"]:
        tab = getattr(P, tname, None)
        if not isinstance(tab, dict):
            continue
        for i, op in enumerate(tab):
            tag = f"{tname}_{i}"
            if tname == "unary_fns":
                for ty in ("int", "float"):
                    out.append(f'''
def op_{tag}_{ty}(x: {ty}) -> bool:
    """
    pre: -10**6 <= x <= 10**6
{rl}    post: _
    """
    return ok(table({tname!r})[{op!r}](x))
''')
            else:
                for tx, ty in (("int", "int"), ("float", "int"), ("int", "float")):
                    out.append(f'''
def op_{tag}_{tx}_{ty}(x: {tx}, y: {ty}) -> bool:
    """
    pre: -10**6 <= x <= 10**6 and -10**3 <= y <= 10**3
{rl}    post: _
    """
    return ok(table({tname!r})[{op!r}](x, y))
''')
    return "\n".join(out)


def expr_totality(rep: C.Report, quick: bool) -> None:
    ob = rep.add(C.Ob("Ob2a #expr: evaluator and result conversion run inside an exception barrier", "E3 AST fact + replay", ["parserfns.py:expr_fn"], "all statements of expr_fn that call the recursive-descent functions, math.*, int/float/round"))
    try:
        covered, uncovered, fn = expr_barrier(rep)
    except Exception as e:  # noqa: BLE001
        ob.verdict, ob.detail = C.NOT_ENCODABLE, f"{type(e).__name__}: {e}"
        return
    if fn is None:
        ob.verdict, ob.detail = C.NOT_ENCODABLE, "expr_fn not found"
        return
    ob.conditions = ob.queries = ob.paths = 1
    need = [ValueError, OverflowError, ZeroDivisionError, TypeError]
    # a recursive-descent evaluator (cycle in the call graph of expr_fn's nested functions) raises RecursionError on
    # deeply nested input: the barrier must cover that class too
    import ast as _ast

    nested = {n.name: n for n in _ast.walk(fn) if isinstance(n, _ast.FunctionDef) and n is not fn}
    calls = {name: {c.func.id for c in _ast.walk(node) if isinstance(c, _ast.Call) and isinstance(c.func, _ast.Name) and c.func.id in nested} for name, node in nested.items()}

    def _reaches(a, b, seen=()):
        return any(c == b or (c not in seen and _reaches(c, b, seen + (c,))) for c in calls.get(a, ()))

    recursive = sorted(n for n in nested if _reaches(n, n))
    rep.extra["expr_recursive_functions"] = recursive
    if recursive:
        need.append(RecursionError)
    classes = covered or set()
    missing = [e.__name__ for e in need if not _covers(classes, e)]
    rep.extra["expr_barrier_classes"] = sorted(classes)
    rep.extra["expr_uncovered_statements"] = uncovered
    if not uncovered and not missing and not C.distrust():
        ob.verdict = C.DISCHARGED
        ob.confirmed_conditions = 1
        ob.samples.append({"barrier_classes": sorted(classes), "uncovered_statements": []})
    else:
        # replay the witness catalogue through the public API; only an exception escaping expand() is a violation
        from wikitextprocessor import Wtp

        c = Wtp(quiet=True, quiet_output=True)
        c.start_page("T")
        hits = []
        for e, why in EXC_WITNESSES:
            try:
                r = c.expand("{{#expr:" + e + "}}")
                if not isinstance(r, str):
                    hits.append((e, f"returns {type(r).__name__}"))
            except Exception as ex:  # noqa: BLE001
                hits.append((e, f"raises {type(ex).__name__}: {ex}"))
                c = Wtp(quiet=True, quiet_output=True)
                c.start_page("T")
        ob.samples.append({"uncovered_statements": uncovered, "classes_not_caught": missing, "replayed_witnesses": [(e[:40], w) for e, w in hits[:6]]})
        if hits:
            vs = []
            def _pretty(e):
                if len(e) < 60:
                    return repr("{{#expr:" + e + "}}")
                if e.startswith("("):
                    n = len(e) - len(e.lstrip("("))
                    return f"'{{{{#expr:' + '(' * {n} + {e.strip('()')!r} + ')' * {n} + '}}}}'"
                n = len(e) - len(e.lstrip("-"))
                return f"'{{{{#expr:' + '-' * {n} + {e.lstrip('-')!r} + '}}}}'"

            # one representative per exception class
            seen_cls, picked = set(), []
            for e, what in hits:
                cls = what.split(":")[0]
                if cls not in seen_cls:
                    seen_cls.add(cls)
                    picked.append((e, what))
            for e, what in picked[:4]:
                vs.append(rep.violation("expand(" + _pretty(e) + ")", f"expand() {what}", {"doc": "{{#expr:" + e + "}}"}))
            ob.verdict = C.VIOLATED if any(v.known is None for v in vs) else C.KNOWN
            ob.confirmed_conditions = 1
        else:
            ob.detail = f"uncovered statements {uncovered} / classes not caught {missing}, but none of {len(EXC_WITNESSES)} witness expressions escapes expand() -> inconclusive"
    # operator level: each operator raises only classes the barrier catches (thorough tier only: most libm-backed
    # conditions end "not confirmed" and the obligation adds ~5 minutes)
    if quick:
        return
    try:
        src = open(HO).read() + "\n" + gen_ops(classes)
        xh.check_harness(
            rep,
            HO,
            {"^op_": dict(name="Ob2b #expr operators raise only exception classes the barrier catches", functions=["parserfns.py: unary_fns, binary_*_fns tables, binary_e_fn"], bounds="every entry of the live operator tables x operand types (int, float); |x| <= 10^6, |y| <= 10^3; floats are reals in CrossHair (libm calls are realised)")},
            timeout=10 if quick else 60,
            src=src,
            batch=10,
            twins=False,
            explore_only=True,
        )
    except Exception as e:  # noqa: BLE001
        rep.add(C.Ob("Ob2b #expr operators", "E1 CrossHair", [], "", verdict=C.NOT_ENCODABLE, detail=f"{type(e).__name__}: {e}"))


BIGN = 5000  # CPython refuses str -> int conversion above 4300 digits (sys.int_info.default_max_str_digits)


def _big(doc: str) -> str:
    return doc.replace("<N>", "9" * BIGN)


def _big_sig(doc: str) -> str:
    parts = doc.split("<N>")
    return "expand(" + (" + '9' * %d + " % BIGN).join(repr(x) for x in parts) + ")"


def int_conversions(rep: C.Report) -> None:
    """Ob8: every int(<text>) applied to argument text is either inside a handler for ValueError or bounded in length.
    CPython raises ValueError for decimal strings of more than 4300 digits, so `s.isdecimal()` does NOT make `int(s)` total.
    AST dominance fact over parserfns.py / core.py / luaexec.py / parser.py; unguarded sites are replayed through expand() with a
    5000-digit numeral at every argument position of every live parser function and in argument names; each input that makes
    expand() raise is a violation (matched one by one against the known-findings file)."""
    import ast as _ast

    ob = rep.add(C.Ob("Ob8 integer conversions of argument text cannot raise (numerals beyond CPython's 4300-digit limit)", "E3 AST dominance + replay", ["parserfns.py", "core.py:Wtp.expand", "luaexec.py:make_frame", "parser.py:TemplateNode.template_parameters"], "every int(<name/subscript/call>) call in the four modules; replay: 5000-digit numeral at argument positions 0..3 of every live parser function, in template/parameter/#invoke argument names"))
    try:
        sites = []
        for mod in ("parserfns.py", "core.py", "luaexec.py", "parser.py"):
            tree = _ast.parse(open(os.path.join(C.SRC, mod)).read())
            parents = {}
            for n in _ast.walk(tree):
                for c in _ast.iter_child_nodes(n):
                    parents[c] = n
            for n in _ast.walk(tree):
                if not (isinstance(n, _ast.Call) and isinstance(n.func, _ast.Name) and n.func.id == "int" and len(n.args) == 1):
                    continue
                a = n.args[0]
                if not isinstance(a, (_ast.Name, _ast.Subscript, _ast.Call, _ast.Attribute)):
                    continue  # comparisons, boolean / arithmetic results: not text
                if isinstance(a, _ast.Call) and isinstance(a.func, _ast.Attribute) and a.func.attr in ("timestamp", "floor", "ceil"):
                    continue
                guarded, in_lambda, q = False, False, n
                while q in parents:
                    q2 = parents[q]
                    if isinstance(q2, _ast.Lambda):
                        in_lambda = True
                    if isinstance(q2, _ast.Try) and q in q2.body:
                        for h in q2.handlers:
                            names = [] if h.type is None else [e.id for e in _ast.walk(h.type) if isinstance(e, _ast.Name)]
                            if h.type is None or any(x in ("ValueError", "Exception", "ArithmeticError") and x != "ArithmeticError" for x in names):
                                guarded = True
                    q = q2
                if in_lambda:
                    continue  # operator tables: arguments are numbers
                sites.append((mod, n.lineno, _ast.unparse(a)[:30], guarded))
        unguarded = [x for x in sites if not x[3]]
        ob.conditions = len(sites)
        ob.confirmed_conditions = len(sites) - len(unguarded)
        ob.queries = ob.paths = len(sites)
        ob.samples.append({"int_of_text_sites": len(sites), "unguarded": [f"{m}:{ln} int({a})" for m, ln, a, _ in unguarded]})
        if not unguarded and not C.distrust():
            ob.verdict = C.DISCHARGED
            return
        # replay
        import wikitextprocessor.parserfns as P
        from vf.wtpfix import close, new_ctx

        docs = []
        fns, _excl = distinct_functions()
        names = [n for n, _ in fns] + ["#time", "#dateformat"]
        for name in names:
            sep = "|" if name.startswith("#") or True else ":"
            for pos in range(4):
                args = ["x"] * pos + ["<N>"]
                docs.append("{{" + name + ":" + "|".join(args) + "}}")
        docs += ["{{t|<N>=x}}", "{{{<N>|d}}}", "{{u|a}}", "{{#invoke:m|f|<N>=x}}", "{{t|<N>}}", "{{#if:<N>|a|b}}"]
        w = new_ctx(templates={"t": "[{{{1|}}}]", "u": _big("{{{<N>|d}}}")}, modules={"m": "local p = {}\nfunction p.f(frame) return tostring(frame.args[1]) end\nreturn p"})
        hits = []
        import signal

        def _alarm(sig, frm):
            raise TimeoutError("replay budget")

        old = signal.signal(signal.SIGALRM, _alarm)
        try:
            for d in docs:
                w.start_page("T")
                signal.alarm(10)
                try:
                    w.expand(_big(d))
                except TimeoutError:
                    pass
                except Exception as e:  # noqa: BLE001
                    if "4300" in str(e) or isinstance(e, ValueError):
                        hits.append((d, f"{type(e).__name__}: {str(e)[:70]}"))
                    w.expand_stack = []
                finally:
                    signal.alarm(0)
            # the parsed node's own view of the argument names
            w.start_page("T")
            try:
                for n in w.parse(_big("{{t|<N>=x}}")).children:
                    getattr(n, "template_parameters", None)
            except Exception as e:  # noqa: BLE001
                hits.append(("parse:{{t|<N>=x}}.template_parameters", f"{type(e).__name__}: {str(e)[:70]}"))
        finally:
            signal.signal(signal.SIGALRM, old)
            close(w)
        vs = []
        for d, what in hits:
            sig = "expand('{{u|a}}') with Template:u = '{{{' + '9' * %d + '|d}}}'" % BIGN if d == "{{u|a}}" else _big_sig(d) if not d.startswith("parse:") else "parse(" + _big_sig(d[6:].replace(".template_parameters", ""))[7:] + ".children[0].template_parameters"
            vs.append(rep.violation(sig, f"raises {what}", {"doc": d, "digits": BIGN}))
        ob.samples.append({"replayed_documents": len(docs) + 1, "raising": len(hits)})
        if vs:
            ob.verdict = C.VIOLATED if any(v.known is None for v in vs) else C.KNOWN
        else:
            ob.detail = f"{len(unguarded)} unguarded int() sites but none of {len(docs)} documents with a {BIGN}-digit numeral makes expand() raise -> inconclusive"
    except Exception as e:  # noqa: BLE001
        ob.detail += f"{type(e).__name__}: {e}"


POW_WITNESSES = ["1 round 1e400", "1 round -(1 e 400)", "1 round (10^400)", "2^(2^40)", "10^(10^9)", "1 e 1000000000", "2^-(10^9)", "99999999999^99999999"]


def bounded_powers(rep: C.Report) -> None:
    """Ob11: no operator of #expr builds an integer power with a data-dependent, unbounded exponent (`10 ** digits` with
    digits taken from the expression runs for hours on `1 round 1e400`).  AST fact over parserfns.py: every `a ** b` whose
    exponent is not a literal sits behind a comparison on the exponent variable (a bound), or both operands are converted to
    float first / math.pow is used (which raises OverflowError at once).  Otherwise witness expressions are replayed under a
    10 s alarm; only an expansion that does not return is a violation."""
    import ast as _ast

    ob = rep.add(C.Ob("Ob11 #expr: integer powers with a data-dependent exponent are bounded (evaluation time)", "AST dominance fact + replay under an alarm", ["parserfns.py (every ** with a non-literal exponent)"], "all BinOp(Pow) nodes of parserfns.py; replay: 8 witness expressions, 10 s each"))
    try:
        tree = _ast.parse(open(os.path.join(C.SRC, "parserfns.py")).read())
        sites = []
        for fn in [n for n in _ast.walk(tree) if isinstance(n, (_ast.FunctionDef, _ast.Lambda))]:
            body = fn.body if isinstance(fn.body, list) else [fn.body]
            for st in body:
                for n in _ast.walk(st):
                    if isinstance(n, _ast.BinOp) and isinstance(n.op, _ast.Pow) and not isinstance(n.right, _ast.Constant):
                        names = {x.id for x in _ast.walk(n.right) if isinstance(x, _ast.Name)}
                        guarded = False
                        if isinstance(fn, _ast.FunctionDef):
                            for c in _ast.walk(fn):
                                if not (isinstance(c, _ast.Compare) and c.lineno < n.lineno and names & {x.id for x in _ast.walk(c) if isinstance(x, _ast.Name)}):
                                    continue
                                # a bound on the magnitude: abs(exp) <op> constant, or a chained comparison lo < exp < hi
                                has_abs = any(isinstance(x, _ast.Call) and isinstance(x.func, _ast.Name) and x.func.id == "abs" for x in _ast.walk(c))
                                consts = [x for x in [c.left] + list(c.comparators) if isinstance(x, (_ast.Constant, _ast.UnaryOp))]
                                if (has_abs and consts) or (len(c.ops) == 2 and len(consts) == 2):
                                    guarded = True
                        floaty = any(isinstance(x, _ast.Call) and isinstance(x.func, _ast.Name) and x.func.id == "float" for x in _ast.walk(n))
                        sites.append((n.lineno, _ast.unparse(n)[:40], guarded or floaty))
        # nested defs are visited twice (as part of the outer function too): dedupe by line
        seen = {}
        for ln, txt, ok in sites:
            seen[ln] = (txt, seen.get(ln, (txt, False))[1] or ok)
        unbounded = [(ln, t) for ln, (t, ok) in sorted(seen.items()) if not ok]
        ob.conditions = ob.queries = ob.paths = max(len(seen), 1)
        ob.confirmed_conditions = len(seen) - len(unbounded)
        ob.samples.append({"powers_with_non_literal_exponent": [f"parserfns.py:{ln} {t}" for ln, (t, _) in sorted(seen.items())], "unbounded": [f"parserfns.py:{ln} {t}" for ln, t in unbounded]})
        if not unbounded and not C.distrust():
            ob.verdict = C.DISCHARGED
            ob.confirmed_conditions = ob.conditions
            return
        import signal

        from wikitextprocessor import Wtp

        def _alarm(sig, frm):
            raise TimeoutError()

        w = Wtp(quiet=True, quiet_output=True)
        old = signal.signal(signal.SIGALRM, _alarm)
        try:
            for e in POW_WITNESSES:
                w.start_page("T")
                signal.alarm(10)
                try:
                    w.expand("{{#expr:" + e + "}}")
                except TimeoutError:
                    v = rep.violation("expand(" + repr("{{#expr:" + e + "}}") + ")", "expand() does not return within 10 s (an integer power with an exponent taken from the expression is being built)", {"doc": "{{#expr:" + e + "}}"})
                    ob.verdict = C.VIOLATED if v.known is None else C.KNOWN
                    return
                except Exception:  # noqa: BLE001 - exceptions are Ob2a's subject
                    w.expand_stack = []
                finally:
                    signal.alarm(0)
        finally:
            signal.signal(signal.SIGALRM, old)
        ob.detail = f"unbounded power(s) {unbounded} but the witness expressions return at once -> inconclusive"
    except Exception as e:  # noqa: BLE001
        ob.detail += f"{type(e).__name__}: {e}"


def regex_backtracking(rep: C.Report) -> None:
    """Ob12: no regular expression of the package repeats, without bound, a body that can split one of its own matches into
    several (`(X+)*`): on a failing match such a pattern tries exponentially many splits (the expander's tokenizer runs its
    patterns over every page and template body).  For every unbounded repeat whose body itself contains an unbounded repeat,
    z3 decides (regular languages, no length bound) whether some string is one iteration AND two-or-more iterations of the
    body; a witness w is replayed: `expand()` of documents that embed w * n must return within 10 s."""
    import re as _re
    import sre_constants as K
    import sre_parse
    import warnings

    from vf import resym as R

    ob = rep.add(C.Ob("Ob12 no regular expression repeats a self-overlapping body without bound (catastrophic backtracking)", "E2 z3 regex (ambiguity of the repeated body, unbounded) + replay under an alarm", ["module-level patterns of core.py, parser.py, parserfns.py, common.py"], "every unbounded repeat that contains an unbounded repeat (outside look-arounds)"))
    try:
        import wikitextprocessor.common as m_common
        import wikitextprocessor.core as m_core
        import wikitextprocessor.parser as m_parser
        import wikitextprocessor.parserfns as m_pf

        pats = {}
        for mod in (m_core, m_parser, m_pf, m_common):
            for k, v in vars(mod).items():
                nm = f"{mod.__name__.split('.')[-1]}.{k}"
                if isinstance(v, _re.Pattern):
                    pats[nm] = (v.pattern, v.flags)
                elif isinstance(v, str) and k.isupper() and len(v) > 8 and any(ch in v for ch in "*+"):
                    try:
                        _re.compile(v)
                        pats[nm] = (v, 0)
                    except _re.error:
                        pass

        def has_unbounded(seq):
            for op, av in seq:
                if op in (K.MAX_REPEAT, K.MIN_REPEAT):
                    if av[1] == K.MAXREPEAT or has_unbounded(av[2]):
                        return True
                elif op == K.SUBPATTERN and has_unbounded(av[3]):
                    return True
                elif op == K.BRANCH and any(has_unbounded(b) for b in av[1]):
                    return True
            return False

        def outer_repeats(seq, out):
            for op, av in seq:
                if op in (K.MAX_REPEAT, K.MIN_REPEAT):
                    if av[1] == K.MAXREPEAT and has_unbounded(av[2]):
                        out.append(av[2])
                    outer_repeats(av[2], out)
                elif op == K.SUBPATTERN:
                    outer_repeats(av[3], out)
                elif op == K.BRANCH:
                    for b in av[1]:
                        outer_repeats(b, out)
            return out

        ambiguous = []
        seen_bodies = set()
        with warnings.catch_warnings():
            warnings.simplefilter("ignore")
            for nm, (pat, fl) in sorted(pats.items()):
                try:
                    tree = sre_parse.parse(pat, fl)
                except Exception:  # noqa: BLE001
                    continue
                for body in outer_repeats(tree, []):
                    key = (pat, str(body))
                    if key in seen_bodies:
                        continue
                    seen_bodies.add(key)
                    ob.conditions += 1
                    try:
                        B = R._seq(body, tree.state.flags | fl)
                    except R.Unsupported:
                        ob.detail += f"{nm}: repeated body not encodable (look-around); "
                        continue
                    x = z3.String("x")
                    sol = z3.Solver()
                    sol.set("timeout", 30000)
                    sol.add(z3.InRe(x, B), z3.InRe(x, z3.Concat(B, z3.Plus(B))), z3.Length(x) > 0, z3.InRe(x, R.well_placed_marks()))
                    t0 = time.time()
                    r = str(sol.check())
                    ob.solver_s += time.time() - t0
                    ob.queries += 1
                    ob.paths += 1
                    if r == "unsat":
                        ob.confirmed_conditions += 1
                    elif r == "sat":
                        ambiguous.append((nm, R.z3str_to_py(sol.model().eval(x, model_completion=True).as_string())))
                    else:
                        ob.detail += f"{nm}: solver {r}; "
        ob.samples.append({"patterns_examined": len(pats), "nested_unbounded_repeats": ob.conditions, "ambiguous_bodies": ambiguous[:5]})
        if not ambiguous and not C.distrust():
            ob.verdict = C.DISCHARGED if not ob.detail or ob.confirmed_conditions == ob.conditions else C.INCONCLUSIVE
            if ob.detail and ob.confirmed_conditions != ob.conditions:
                ob.verdict = C.INCONCLUSIVE
            return
        import signal

        from wikitextprocessor import Wtp

        def _alarm(sig, frm):
            raise TimeoutError()

        w = Wtp(quiet=True, quiet_output=True)
        w.add_page("Template:t", 10, "[{{{1|}}}]")
        old = signal.signal(signal.SIGALRM, _alarm)
        try:
            for nm, wit in (ambiguous or [("-", "a")]):
                unit = wit if len(wit) <= 4 else wit[:2]
                for pre, post in (("{{{1|", "{{{2|you}}}}}}"), ("{{t|", "{{{"), ("[[", "[x"), ("<", " a="), ("", "{{{")):
                    doc = pre + unit * 40 + post
                    w.start_page("T")
                    signal.alarm(10)
                    try:
                        w.expand(doc)
                    except TimeoutError:
                        v = rep.violation(f"expand({pre!r} + {unit!r} * 40 + {post!r})", f"expand() does not return within 10 s: the pattern {nm} repeats a body that can split its own match ({wit!r} is one iteration and several)", {"doc": doc})
                        ob.verdict = C.VIOLATED if v.known is None else C.KNOWN
                        return
                    except Exception:  # noqa: BLE001
                        w.expand_stack = []
                    finally:
                        signal.alarm(0)
        finally:
            signal.signal(signal.SIGALRM, old)
        ob.detail += f"ambiguous repeated bodies {ambiguous[:3]} but the documents built from the witnesses expand at once -> inconclusive"
    except Exception as e:  # noqa: BLE001
        ob.detail += f"{type(e).__name__}: {e}"


def lookup_terminates(rep: C.Report) -> None:
    """Ob9: the page lookups the expander relies on cannot recurse without bound.  Call-graph fact over class Wtp: none of
    get_page, get_page_resolve_redirect, get_page_body, page_exists reaches itself through self.<method>() calls (a redirect
    is followed for ONE hop; redirect cycles A -> B -> A and A -> A are ordinary data).  z3: reachability in the finite call
    graph as a fixpoint query.  If a cycle exists, redirect cycles are replayed through expand()."""
    import ast as _ast

    ob = rep.add(C.Ob("Ob9 page lookups terminate on every store content (no unbounded recursion over redirects)", "z3 reachability over the method call graph (finite) + replay", ["core.py:Wtp.get_page", "core.py:Wtp.get_page_resolve_redirect", "core.py:Wtp.get_page_body", "core.py:Wtp.page_exists"], "call graph of class Wtp restricted to self.<method>() calls; replay: redirect cycles of length 1 and 2, chains of length 3"))
    try:
        tree = _ast.parse(open(os.path.join(C.SRC, "core.py")).read())
        cls = [n for n in tree.body if isinstance(n, _ast.ClassDef) and n.name == "Wtp"]
        if not cls:
            ob.verdict, ob.detail = C.NOT_ENCODABLE, "class Wtp not found"
            return
        methods = {n.name: n for n in cls[0].body if isinstance(n, _ast.FunctionDef)}
        edges = {m: {c.func.attr for c in _ast.walk(n) if isinstance(c, _ast.Call) and isinstance(c.func, _ast.Attribute) and isinstance(c.func.value, _ast.Name) and c.func.value.id == "self" and c.func.attr in methods} for m, n in methods.items()}
        roots = [m for m in ("get_page", "get_page_resolve_redirect", "get_page_body", "page_exists") if m in methods]
        names = sorted(methods)
        idx = {m: i for i, m in enumerate(names)}
        fp = z3.Fixedpoint()
        fp.set(engine="datalog")
        V = z3.BitVecSort(12)
        reach = z3.Function("reach", V, V, z3.BoolSort())
        edge = z3.Function("edge", V, V, z3.BoolSort())
        fp.register_relation(reach, edge)
        a, b, c = z3.Consts("a b c", V)
        fp.declare_var(a, b, c)
        fp.rule(reach(a, b), edge(a, b))
        fp.rule(reach(a, c), [reach(a, b), edge(b, c)])
        for m, outs in edges.items():
            for o in outs:
                fp.fact(edge(z3.BitVecVal(idx[m], V), z3.BitVecVal(idx[o], V)))
        cyc = []
        for r in roots:
            q = fp.query(reach(z3.BitVecVal(idx[r], V), z3.BitVecVal(idx[r], V)))
            ob.queries += 1
            ob.paths += 1
            ob.conditions += 1
            if str(q) == "unsat":
                ob.confirmed_conditions += 1
            else:
                cyc.append(r)
        ob.samples.append({"lookup_methods": roots, "calls": {m: sorted(edges[m]) for m in roots}, "recursive": cyc})
        if not cyc and not C.distrust():
            ob.verdict = C.DISCHARGED
            return
        import signal

        from wikitextprocessor import Wtp

        def _alarm(sig, frm):
            raise TimeoutError("lookup did not return within 20 s")

        w = Wtp(quiet=True, quiet_output=True)
        w.add_page("Template:ok", 10, "OK")
        w.add_page("Template:r1", 10, None, redirect_to="Template:ok")
        w.add_page("Template:r2", 10, None, redirect_to="Template:r1")
        w.add_page("Template:r3", 10, None, redirect_to="Template:r2")
        w.add_page("Template:selfie", 10, None, redirect_to="Template:selfie")
        w.add_page("Template:ping", 10, None, redirect_to="Template:pong")
        w.add_page("Template:pong", 10, None, redirect_to="Template:ping")
        old = signal.signal(signal.SIGALRM, _alarm)
        try:
            for doc in ("{{r1}}", "{{r3}}", "{{selfie}}", "{{ping}}", "{{#if:1|{{pong}}}}", "{{PAGESIZE:Template:selfie}}", "{{#ifexist:Template:ping|y|n}}"):
                w.start_page("T")
                signal.alarm(20)
                try:
                    r = w.expand(doc)
                    bad = None if isinstance(r, str) else f"returns {type(r).__name__}"
                except (Exception, RecursionError) as e:  # noqa: BLE001
                    bad = f"raises {type(e).__name__}: {str(e)[:60]}"
                    w.expand_stack = []
                finally:
                    signal.alarm(0)
                if bad:
                    v = rep.violation(f"store with redirects r1->ok, r2->r1, r3->r2, selfie->selfie, ping->pong, pong->ping: expand({doc!r})", f"expand() {bad}", {"doc": doc})
                    ob.verdict = C.VIOLATED if v.known is None else C.KNOWN
                    return
        finally:
            signal.signal(signal.SIGALRM, old)
        ob.detail = f"lookup method(s) {cyc} reach themselves in the call graph, but redirect cycles and chains expand without an exception -> inconclusive"
    except Exception as e:  # noqa: BLE001
        ob.detail += f"{type(e).__name__}: {e}"


def placeholder_input(rep: C.Report, pid: str = "C05") -> None:
    """Input that itself contains a code point of the expander's internal cookie range (read from common.py: MAGIC_FIRST ..
    MAGIC_LAST, Supplementary Private Use Area-B) is indistinguishable from a cookie.  z3 picks the smallest Unicode scalar
    value inside the range (the input alphabet is all scalar values, so the intersection is not empty); documents carrying
    that character are replayed.  Recorded findings (see known_findings.json): nothing at the API boundary escapes them."""
    from wikitextprocessor.common import MAGIC_FIRST, MAGIC_LAST

    ob = rep.add(C.Ob("Ob10 input containing a code point of the internal placeholder range" if pid == "C05" else "Ob9 input containing a code point of the internal placeholder range", "z3 (range intersection, optimisation) + replay", ["common.py:MAGIC_FIRST..MAGIC_LAST", "core.py:Wtp._encode / _finalize_expand", "parser.py:process_text"], "all Unicode scalar values as input characters; replay with the smallest one inside the range"))
    try:
        o = z3.Optimize()
        c = z3.Int("c")
        o.add(c >= 0, c <= 0x10FFFF, z3.Not(z3.And(c >= 0xD800, c <= 0xDFFF)), c >= MAGIC_FIRST, c <= MAGIC_LAST)
        o.minimize(c)
        r = str(o.check())
        ob.queries = ob.paths = ob.conditions = 1
        if r != "sat":
            ob.verdict = C.DISCHARGED
            ob.confirmed_conditions = 1
            return
        ch = chr(o.model()[c].as_long())
        ob.samples.append({"witness_code_point": f"U+{ord(ch):06X}"})
        from wikitextprocessor import Wtp

        w = Wtp(quiet=True, quiet_output=True)
        w.add_page("Template:t", 10, "[{{{1|}}}]")
        vs = []
        if pid == "C05":
            for pre, post in (("[[", "]]"), ("{{t|", "}}"), ("{{#if:", "|a|b}}"), ("", "")):
                w.start_page("T")
                try:
                    w.expand(pre + ch + post)
                except (Exception, RecursionError) as e:  # noqa: BLE001
                    vs.append(rep.violation(f"expand({pre!r} + chr(0x{ord(ch):X}) + {post!r})", f"expand() raises {type(e).__name__}: the character is taken for the expander's own cookie number 0", {"cp": ord(ch)}))
                    w.expand_stack = []
                    break
        else:
            w.start_page("T")
            root = w.parse("x" + ch + "y")

            def walk(n):
                for k in getattr(n, "children", []):
                    if isinstance(k, str):
                        if any(MAGIC_FIRST <= ord(q) <= MAGIC_LAST for q in k):
                            return True
                    elif walk(k):
                        return True
                return False

            if walk(root):
                vs.append(rep.violation(f"parse('x' + chr(0x{ord(ch):X}) + 'y')", "the returned tree contains a character of the internal placeholder range", {"cp": ord(ch)}))
        if vs:
            ob.verdict = C.VIOLATED if any(v.known is None for v in vs) else C.KNOWN
            ob.confirmed_conditions = 1
        else:
            ob.detail = "the placeholder range intersects the input alphabet but the replay documents behave -> inconclusive"
    except Exception as e:  # noqa: BLE001
        ob.detail += f"{type(e).__name__}: {e}"


def run(rep: C.Report) -> None:
    quick = C.tier() == "quick"
    rep.explanation = "Parser-function totality: every distinct implementation in the live PARSER_FUNCTIONS table is called through call_parser_function with 0..3(4) symbolic string arguments (full Unicode, bounded length) and an identity expander, and once with an arbitrary expander (each expansion result a fresh symbolic string); any exception or non-str result is a counterexample, replayed through Wtp.expand or a direct call. Loop detector and depth guard are decided separately."
    rep.trusted += ["CrossHair 0.0.110", "z3"]
    body, fns, excluded = gen_tot(quick)
    rep.extra["functions_checked"] = [f"{n} ({i})" for n, i in fns]
    rep.extra["functions_excluded"] = excluded
    rep.outside += ["functions behind network / clock / dateparser: " + ", ".join(excluded), "termination of expand() in bounded time for every template set (no termination prover)", "#expr operands beyond the numeral bound, e.g. huge exponents of the binary e operator"]
    src = open(HT).read() + "\n" + body
    xh.check_harness(
        rep,
        HT,
        {
            "^tot_": dict(name="Ob1a parser functions total, identity expander", functions=[f"parserfns.py:{i}" for _, i in fns], bounds=f"{len(fns)} distinct implementations x 0..{3 if quick else 4} symbolic arguments, each <= {2 if quick else 3} Unicode characters"),
            "^totx_": dict(name="Ob1b parser functions total, arbitrary expander", functions=["same"], bounds=f"concrete non-empty arguments, every expansion result a fresh symbolic string <= {2 if quick else 3} chars"),
        },
        timeout=15 if quick else 120,
        src=src,
        batch=8,
        twins=False,
        explore_only=True,
    )


    expr_totality(rep, quick)
    namespace_index(rep)
    int_conversions(rep)
    lookup_terminates(rep)
    bounded_powers(rep)
    regex_backtracking(rep)
    placeholder_input(rep)
    depth_guard(rep)
    loop_check_order(rep)
    try:
        from props.C16 import stack_balance

        stack_balance(rep, "Ob7 (shared with C16) no path leaves the expansion path deeper or shallower - an underflow makes a later pop raise: ")
    except Exception as e:  # noqa: BLE001
        rep.extra["balance_error"] = f"{type(e).__name__}: {e}"
    xh.check_harness(
        rep,
        HL,
        {
            "^loop_": dict(name="Ob4 loop detector == 'tail is a pattern repeated >= 2 times not starting with an ARGVAL- frame'", functions=["core.py:detect_expand_template_loop"], bounds=f"stacks of 2..{5 if quick else 6} entries over 5 frame names (2 templates, ARGVAL-1, ARGVAL-x, TEMPLATE_NAME); entries are symbolic ints decoded to names, i.e. the solver drives an exhaustive case split (5^n cases)"),
        },
        timeout=150 if quick else 900,
        twins=False,
        select="^loop_[2-5]$" if quick else "^loop_",
    )


def replay(r: dict) -> int:
    print(r)
    return 0
