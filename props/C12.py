"""C12 - dump ingestion stores exactly the selected pages, byte for byte (kernels)."""
from __future__ import annotations

import os

from vf import common as C
from vf import xh

H = os.path.join(C.VERIF, "harness", "C12_dump.py")
KNOWN_MAIN = ("Main:foo", 0)


def gen(quick: bool) -> str:
    out = []
    L = 2 if quick else 3
    SIG = "ns: int, selected: bool, mi: int, text: str, has_redirect: bool, target: str"
    PRE = "ns in (0, 10, 828, 14) and 0 <= mi < len(MODELS) and len(text) <= 2 and len(target) <= 2"
    ARGS = "ns, selected, mi, text, has_redirect, target"

    def cond(tag, n, pins, holes_pre):
        out.append(f'''
def flt_{tag}(title: str, {SIG}) -> bool:
    """
    pre: len(title) == {n}
    pre: {pins}
    pre: {holes_pre}
    pre: {PRE}
    post: _
    """
    return filter_ok(title, {ARGS})


def replay_flt_{tag}(title, {ARGS}):
    return replay_dump(title, {ARGS})
''')

    for k in range(1, L + 1):
        holes = " and ".join(f"title[{i}] in TCH" for i in range(k))
        cond(f"plain_{k}", k, "True", holes)
        cond(f"doc_{k}", k + 14, f'pinned(title, {k}, "/documentation")', holes)
        cond(f"docinner_{k}", k + 15, f'pinned(title, {k}, "/documentation")', holes + f" and title[{k + 14}] in TCH")
        cond(f"test_{k}", k + 11, f'pinned(title, {k}, "/testcases")', holes + f" and title[{k + 10}] in TCH")
        # the words without their slash: 'xdocumentation', 'a/documentations' ... are ordinary titles unless the hole is the slash
        cond(f"docword_{k}", k + 13, f'pinned(title, {k}, "documentation")', holes)
        cond(f"testword_{k}", k + 9, f'pinned(title, {k}, "testcases")', holes)
    cond("docword_0", 13, 'pinned(title, 0, "documentation")', "True")
    cond("testword_0", 9, 'pinned(title, 0, "testcases")', "True")
    for k in range(1, L + 1):
        pass
    # two consecutive pages through the real loop (state carried between iterations); titles differ so that the store keeps both
    out.append('''
def seq_two(sel1: bool, mi1: int, text1: str, red1: bool, tgt1: str, sel2: bool, mi2: int, text2: str, red2: bool, tgt2: str) -> bool:
    """
    pre: 0 <= mi1 < len(MODELS) and 0 <= mi2 < len(MODELS)
    pre: len(text1) <= 1 and len(text2) <= 1 and len(tgt1) <= 1 and len(tgt2) <= 1
    post: _
    """
    return two_pages_ok("P", sel1, mi1, text1, red1, tgt1, "Q", sel2, mi2, text2, red2, tgt2)


def replay_seq_two(sel1, mi1, text1, red1, tgt1, sel2, mi2, text2, red2, tgt2):
    return replay_two_pages("P", sel1, mi1, text1, red1, tgt1, "Q", sel2, mi2, text2, red2, tgt2)
''')
    # add_page: canonical dump title stored unchanged; body/model/redirect pass through
    for ns, pfx in ((0, ""), (10, "Template:"), (828, "Module:"), (14, "Category:")):
        for k in range(1, L + 1):
            n = len(pfx) + k
            holes = " and ".join(f'title[{len(pfx) + i}] in "aT:/ é"' for i in range(k))
            extra = ' and not (title[0] == "M" and False)' if ns else ""
            out.append(f'''
def addp_{ns}_{k}(title: str, body: str, model_none: bool, is_redirect: bool) -> bool:
    """
    pre: len(title) == {n} and pinned(title, 0, {pfx!r}) and {holes}
    pre: len(body) <= 3 and all(c in "a<>/ \\n" for c in body)
    post: _
    """
    w = written(title, {ns}, None if is_redirect else body, "Target" if is_redirect else None, None if model_none else "Scribunto")
    if w is None:
        return False
    t, wns, wbody, wred, wnpe, wmodel = w
    if t != title or wns != {ns} or wred != ("Target" if is_redirect else None) or wmodel != ("wikitext" if model_none else "Scribunto"):
        return False
    if is_redirect:
        return wbody is None
    if {ns} == 10:
        return wbody == ctx._template_to_body(title, body)
    return wbody == body


def replay_addp_{ns}_{k}(title, body, model_none, is_redirect):
    w = Wtp(quiet=True, quiet_output=True)
    w.add_page(title, {ns}, None if is_redirect else body, redirect_to="Target" if is_redirect else None, model=None if model_none else "Scribunto")
    pages = list(w.get_all_pages())
    ok = len(pages) == 1 and pages[0].title == title and pages[0].redirect_to == ("Target" if is_redirect else None) and pages[0].model == ("wikitext" if model_none else "Scribunto") and (is_redirect or {ns} == 10 or pages[0].body == body)
    return (f"add_page({{title!r}}, {ns}, ...) then get_all_pages()", not ok, f"stored {{[(p.title, p.body, p.redirect_to, p.model) for p in pages]}}")
''')
    # a title written with "_" for " " (in the namespace prefix, in the rest, or both) is stored in its spelling with spaces
    for ns, pfx in ((11, "Template talk:"), (10, "Template:"), (0, "")):
        for k in range(1, L + 1):
            n = len(pfx) + k
            holes = " and ".join(f'title[{len(pfx) + i}] in "aT _"' for i in range(k))
            out.append(f'''
def addu_{ns}_{k}(title: str, us_prefix: bool) -> bool:
    """
    pre: len(title) == {n} and pinned(title, 0, {pfx!r}) and {holes}
    post: _
    """
    given = ({pfx!r}.replace(" ", "_") if us_prefix else {pfx!r}) + title[{len(pfx)}:]
    w = written(given, {ns}, "b", None, None)
    return w is not None and w[0] == title.replace("_", " ") and w[1] == {ns}


def replay_addu_{ns}_{k}(title, us_prefix):
    given = ({pfx!r}.replace(" ", "_") if us_prefix else {pfx!r}) + title[{len(pfx)}:]
    w = Wtp(quiet=True, quiet_output=True)
    w.add_page(given, {ns}, "b")
    pages = [(p.title, p.namespace_id) for p in w.get_all_pages()]
    return (f"add_page({{given!r}}, {ns}, 'b') then get_all_pages()", pages != [(title.replace("_", " "), {ns})], f"stored {{pages}}")
''')
    return "\n".join(out)


def run(rep: C.Report) -> None:
    quick = C.tier() == "quick"
    rep.explanation = (
        "The page filter and field pass-through of parse_dump_xml are executed symbolically on an AST slice of its loop body (the lxml element is replaced by a stub answering the four lookups "
        "the code performs): symbolic title skeletons (plain, x/documentation, x/documentation+y, x/testcases+y), namespace, selection, every content model of a list, text and redirect. "
        "add_page (recording connection) stores a canonical title unchanged and passes body/model/redirect through (template bodies reduced to their includable part). add_default_templates adds exactly the absent helpers."
    )
    rep.assumptions += ["lxml field extraction is stubbed (replays build a real .xml.bz2 and run the real parse_dump_xml)", "a redirect page is kept whatever its content model (the statement does not say; the code keeps it)", "recorded finding: a page titled 'Main:...' in namespace 0 loses that prefix (region excluded: namespace-0 titles are drawn without the letter M)"]
    rep.outside += ["XML extraction (lxml, bz2), duplicate <page> elements, namespaces beyond the four sampled", "process_dump's overwrite/backup flow"]
    rep.trusted += ["CrossHair 0.0.110", "z3", "vf/slicer.py"]
    # recorded finding probe
    try:
        from wikitextprocessor import Wtp

        w = Wtp(quiet=True, quiet_output=True)
        w.add_page("Main:foo", 0, "x")
        w.add_page("foo", 0, "y")
        n = len(list(w.get_all_pages()))
        if n != 2:
            rep.violation("add_page('Main:foo', 0, 'x'); add_page('foo', 0, 'y')", f"{n} page(s) stored: a namespace-0 page titled 'Main:foo' is merged into 'foo'", {"titles": ["Main:foo", "foo"]})
    except Exception as e:  # noqa: BLE001
        rep.extra["known_probe_error"] = f"{type(e).__name__}: {e}"
    try:
        src = open(H).read() + "\n" + gen(quick)
        xh.check_harness(
            rep,
            H,
            {
                "^seq_": dict(name="Ob2b two consecutive pages: the record stored for a page depends on that page only", functions=["dumpparser.py:parse_dump_xml loop incl. the statements preceding it in the with block (AST slice)"], bounds="2 page elements, each: selected or not, 9 content models, redirect or not, text/target <= 1 symbolic char"),
                "^flt_": dict(name="Ob2 page filter and field pass-through of parse_dump_xml", functions=["dumpparser.py:parse_dump_xml loop body (AST slice)"], bounds=f"title skeletons with 1..{2 if quick else 3} symbolic chars over {{a,T,:,/,space,é}}; 4 namespaces, selected or not; 9 content models; text/redirect target <= 2 symbolic chars"),
                "^addu_": dict(name="Ob1b a title written with '_' for ' ' (in a two-word namespace prefix, after it, or both) is stored once, under its spelling with spaces", functions=["core.py:Wtp.add_page"], bounds=f"namespaces Template talk / Template / main; prefix written with spaces or underscores; 1..{2 if quick else 3} symbolic chars over {{a,T,space,_}}"),
                "^addp_": dict(name="Ob1 add_page stores a canonical title unchanged and passes the fields through", functions=["core.py:Wtp.add_page", "core.py:Wtp._template_to_body"], bounds=f"prefix of the namespace + 1..{2 if quick else 3} symbolic chars; body <= 3 symbolic chars; model None or given; redirect or not"),
                "^defaults_ok": dict(name="Ob3 add_default_templates adds exactly the absent helpers and never overwrites a page that is there (text, empty includable part, or a dangling redirect)", functions=["dumpparser.py:add_default_templates"], bounds="all 4^4 presence kinds of the four helper templates (absent, text, empty includable part, dangling redirect)"),
            },
            timeout=180 if quick else 400,
            src=src,
            batch=3,
            twins=False,
        )
    except Exception as e:  # noqa: BLE001
        rep.add(C.Ob("Ob1-3 kernels", "E1 CrossHair", [], "", verdict=C.NOT_ENCODABLE, detail=f"{type(e).__name__}: {e}"))


    # a title that occurs twice in a dump (or is added again later) is stored as its LAST occurrence, whatever the two records
    # are (text / redirect / other content model): the read-after-write histories of C10 on the real SQLite store
    try:
        from props import C10 as P10

        xh.check_harness(
            rep,
            P10.H,
            {"^hist": dict(name="Ob4 a page added twice is stored as its last occurrence (text, redirect or another content model), on the real store", functions=["core.py:Wtp.add_page (upsert)", "core.py:Wtp.get_page"], bounds="shared with C10 Ob2/Ob3: all histories of 3 (thorough 4) operations over 11 operation kinds x 2 titles")},
            timeout=90 if quick else 600,
            src=open(P10.H).read() + "\n" + P10.gen(quick),
            batch=4,
            twins=False,
            select="^hist" if quick else "^hist4",
        )
    except Exception as e:  # noqa: BLE001
        rep.add(C.Ob("Ob4 duplicate titles", "E1 CrossHair", [], "", verdict=C.NOT_ENCODABLE, detail=f"{type(e).__name__}: {e}"))
    try:
        from props.C04 import template_body_pipeline

        template_body_pipeline(rep, "C12")  # "templates reduced to their includable part" at ingestion uses the same function
    except Exception as e:  # noqa: BLE001
        rep.extra["pipeline_error"] = f"{type(e).__name__}: {e}"


def replay(r: dict) -> int:
    print(r)
    return 0
