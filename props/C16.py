"""C16 - the expansion path and message lists are consistent after every call.

Ob1/Ob2 (E3): every syntactic path through every function of core.py / luaexec.py that touches
`*.expand_stack` returns with the depth it was entered with (z3 over branch booleans, unbounded in
input size).  sat => replay on the real Wtp.expand over a page x option catalogue; only a measured
leak is a violation.
Ob3/Ob4 (E1): message records / start_page reset for symbolic context state.
"""
from __future__ import annotations

import ast
import itertools
import os
import sys
import time

import z3

from vf import astpaths as AP
from vf import common as C
from vf import xh

FILES = ["core.py", "luaexec.py"]


def _is_stack(n: ast.AST) -> bool:
    return isinstance(n, ast.Attribute) and n.attr == "expand_stack"


def _is_call(n: ast.AST, meth: str) -> bool:
    return isinstance(n, ast.Call) and isinstance(n.func, ast.Attribute) and n.func.attr == meth and _is_stack(n.func.value)


def _is_len(n: ast.AST) -> bool:
    return isinstance(n, ast.Call) and isinstance(n.func, ast.Name) and n.func.id == "len" and len(n.args) == 1 and _is_stack(n.args[0])


def _delta(n: ast.AST):
    if _is_call(n, "append"):
        return {"depth": 1}
    if _is_call(n, "pop"):
        return {"depth": -1}
    return None


def _is_event(n: ast.AST) -> bool:
    return _is_call(n, "append") or _is_call(n, "pop")


def _other_mutation(fn: ast.FunctionDef) -> list[str]:
    """Writes to the stack that the +1/-1 model does not capture (assignment, extend, clear, del, insert...)."""
    out = []
    for n in AP._walk_no_defs(fn):
        if isinstance(n, (ast.Assign, ast.AugAssign, ast.AnnAssign)):
            tg = n.targets if isinstance(n, ast.Assign) else [n.target]
            for t in tg:
                for s in ast.walk(t):
                    if _is_stack(s):
                        out.append(f"assignment@{n.lineno}")
        elif isinstance(n, ast.Delete):
            for t in n.targets:
                if isinstance(t, ast.Subscript) and _is_stack(t.value) and isinstance(t.slice, ast.Slice) and t.slice.upper is None and t.slice.step is None and isinstance(t.slice.lower, ast.Name):
                    continue  # `del stack[saved:]`: the restore form, modelled by the encoder
                for s in ast.walk(t):
                    if _is_stack(s):
                        out.append(f"del@{n.lineno}")
        elif isinstance(n, ast.Call) and isinstance(n.func, ast.Attribute) and _is_stack(n.func.value) and n.func.attr not in ("append", "pop", "copy", "count", "index"):
            out.append(f"{n.func.attr}()@{n.lineno}")
        elif _is_call(n, "pop") and (n.args or n.keywords):
            pass  # pop(i) still removes exactly one element
    return out


# ---------------------------------------------------------------- replay catalogue
MODS = {
    "m": "local p = {}\nfunction p.f(frame) return 'R' .. (frame.args[1] or '') end\n"
    "function p.e(frame) error('boom') end\n"
    "function p.pp(frame) return frame:preprocess('{{a|1}}{{#if:x|y}}') end\n"
    "function p.et(frame) return frame:expandTemplate{title='a', args={'z'}} end\n"
    "function p.tag(frame) return frame:extensionTag('nowiki', 'x') end\n"
    "function p.loop(frame) while true do end end\n"
    # a Python exception raised inside a frame callback and swallowed by pcall: entries pushed below the callback stay on the
    # path until call_lua_sandbox restores the saved depth
    "function p.ppbad(frame) local ok = pcall(function() return frame:preprocess('{{padleft:x|' .. string.rep('9', 5000) .. '}}') end); return ok and 'ok' or 'caught' end\n"
    "function p.etbad(frame) local ok = pcall(function() return frame:extensionTag('ref', 'x', {5}) end); return ok and 'ok' or 'caught' end\n"
    "function p.argbad(frame) local ok = pcall(function() return frame.args[1] end); return ok and 'ok' or 'caught' end\n"
    "return p",
}
TEMPLATES = {
    "a": "A{{{1|d}}}",
    "b": "{{a|{{{1}}}}}{{#if:{{{x|}}}|{{a|q}}|n}}",
    "self": "x{{self}}",
    "p1": "{{p2}}",
    "p2": "{{p1}}",
    "inv": "{{#invoke:m|f|{{{1}}}}}",
    "deep": "{{#if:1|{{deep2|{{{1}}}}}}}",
    "deep2": "{{{1}}}{{{nope|{{a}}}}}",
    "empty": "",
    "doconly": "<noinclude>documentation</noinclude>",
    "cmtonly": "<!-- nothing -->",
    "onlyinc": "x<onlyinclude>O{{{1|}}}</onlyinclude>y",
    "list": "* item {{{1|}}}",
    "tbl": "{|\n| c\n|}",
    "nw": "<nowiki>{{a}}</nowiki>{{{1|}}}",
    "args": "{{{1}}}{{{2|}}}{{{n|{{{1}}}}}}{{{{{{1}}}|z}}}",
    "sp ace": "S",
    "a:b": "colon",
    "err": "{{#expr:1+}}{{#invoke:m|e}}",
    "flag": "== h ==",
}
DOCS = [
    "plain", "{{ovr|x}}{{Ovr2}}", "{{a}}", "{{a|1}}{{b|2|x=3}}", "{{missing|1}}", "{{self}}", "{{p1}}", "{{#if:x|{{a}}|b}}", "{{#expr:1+}}",
    "{{#switch:a|a=1|b=2}}", "{{#invoke:m|f|1}}", "{{#invoke:m|e}}", "{{#invoke:m|pp}}", "{{#invoke:m|et}}", "{{#invoke:m|tag}}",
    "{{#invoke:m}}", "{{#invoke:nomod|f}}", "{{inv|z}}", "{{deep|k}}", "{{{arg|def}}}", "{{{arg}}}", "[[link|{{a}}]] [http://x {{a}}]",
    "<nowiki>{{a}}</nowiki>", "{{a|{{#invoke:m|f}}}}", "{{ {{a}} }}", "{{lc:ABC}}{{PAGENAME}}", "{{#tag:span|x}}",
    "{{subst:a}}{{safesubst:b|1}}", "{{#unknownfn:x}}", "{{a|b=c|1=d}}",
    # documents that run into the depth limit (the "too deep recursion" branch must leave the path as it found it)
    "{{#if:1|" * 60 + "X" + "}}" * 60, "{{a|" * 101 + "x" + "}}" * 101, "{{lc:" * 110 + "X" + "}}" * 110,
    "{{#invoke:m|ppbad}}", "{{#invoke:m|etbad}}", "{{#invoke:m|argbad|{{padleft:x|" + "9" * 5000 + "}}}}", "{{#invoke:m|f|{{padleft:x|" + "9" * 5000 + "}}}}",
]
REDIRECTS = {"redir": "Template:a", "redir2": "Template:missing-target", "redirempty": "Template:empty"}
MAINPAGES = [("Mainpage", 0, "main {{a}}"), ("Emptypage", 0, "")]
ARGSETS = ["", "|1", "|x=1", "|2=b|a", "| |", "|{{a}}", "|{{{q|}}}", "|[[l]]", "|<nowiki>|</nowiki>", "|1=|1=z"]
WRAPS = ["%s", "{{#if:1|%s}}", "{{a|%s}}", "[[l|%s]]", "{{{u|%s}}}", "%s%s", "{{b|x=%s}}"]


def _docs():
    yield from DOCS
    names = list(TEMPLATES) + list(REDIRECTS) + [":Mainpage", ":Emptypage", "Template:a", "template:empty", "nosuch", "A", "#invoke:m|f", "#invoke:m|e", "lc:X", "#tag:span"]
    for n in names:
        for a in ARGSETS[:4]:
            yield "{{" + n + a + "}}"
    for n in names:
        for w in WRAPS[1:]:
            yield w.replace("%s", "{{" + n + "}}")
    for n in ["a", "empty", "args", "inv", "redir"]:
        for a in ARGSETS[4:]:
            yield "{{" + n + a + "}}"
    for n in ["ovr", "Ovr2"]:
        for a in ARGSETS[:4]:
            yield "{{" + n + a + "}}"
        for w in WRAPS[1:3]:
            yield w.replace("%s", "{{" + n + "|x}}")


def _option_sets():
    for pre, pf, inv, hooks, sel in itertools.product([False, True], [True, False], [True, False], [0, 1, 2], [0, 1]):
        kw = {"pre_expand": pre, "expand_parserfns": pf, "expand_invoke": inv}
        if hooks == 1:
            kw["template_fn"] = lambda n, a: None
            kw["post_template_fn"] = lambda n, a, e: None
        elif hooks == 2:
            kw["template_fn"] = lambda n, a: "H" if n == "a" else None
            kw["post_template_fn"] = lambda n, a, e: "P" if n == "b" else None
        if sel:
            kw["templates_to_expand"] = {"a", "inv"}
        yield kw


def _kw_text(kw):
    return ", ".join(f"{k}={'<hook>' if callable(v) else v!r}" for k, v in kw.items())


def make_ctx():
    from vf.wtpfix import new_ctx

    ctx = new_ctx(templates=TEMPLATES, modules=MODS, pages=MAINPAGES)
    for n, tgt in REDIRECTS.items():
        ctx.add_page("Template:" + n, 10, redirect_to=tgt)
    ctx.add_page("Template:flag", 10, TEMPLATES["flag"], need_pre_expand=True)
    ctx.db_conn.commit()
    # the constructor option template_override_funcs (round 8): calls of these names never reach the template branch
    ctx.template_override_funcs = {"ovr": lambda args: "OVR(" + "|".join(args[1:]) + ")", "Ovr2": lambda args: ""}
    return ctx


def find_leaks(targets: set, budget_s: float = 150.0, ranges: dict | None = None):
    """Runs candidate pages x option sets on the real code under line tracing until, for every target
    (file, line), a run is found that executes the line and returns with a changed expand_stack.
    Returns ({target: (doc, kwtext, before, after)}, runs)."""
    from vf.wtpfix import close

    ctx = make_ctx()
    found: dict = {}
    n = 0
    t0 = time.time()
    optsets = list(_option_sets())
    for doc in _docs():
        for kw in optsets:
            if time.time() - t0 > budget_s or len(found) == len(targets):
                break
            ctx.start_page("T")
            before = list(ctx.expand_stack)
            lines: set = set()

            def tr(frame, ev, arg, lines=lines):
                fn = frame.f_code.co_filename
                if fn.endswith(("core.py", "luaexec.py")):
                    base = os.path.basename(fn)

                    def local(frame, ev, arg):
                        if ev == "line":
                            lines.add((base, frame.f_lineno))
                        return local

                    return local
                return None

            try:
                sys.settrace(tr)
                try:
                    ctx.expand(doc, timeout=2, **kw)
                finally:
                    sys.settrace(None)
            except Exception:  # noqa: BLE001 - property speaks of calls that return
                ctx.expand_stack = before
                continue
            n += 1
            after = list(ctx.expand_stack)
            if after != before:
                for tg in targets:
                    # the run went through the exit's line - or, for exits whose line is never reported by the tracer (the end of
                    # a loop body is the END line of a multi-line statement), through the function the exit belongs to
                    lo, hi = (ranges or {}).get(tg, (tg[1], tg[1]))
                    through = tg in lines or any(f == tg[0] and lo <= ln <= hi for f, ln in lines)
                    if through and tg not in found:
                        found[tg] = (doc, _kw_text(kw), before, after)
    close(ctx)
    return found, n


def run(rep: C.Report) -> None:
    rep.explanation = (
        "E3: each function of core.py/luaexec.py that appends to or pops from *.expand_stack is translated from the current AST into z3 "
        "(branch outcomes = fresh Bools, depth = If-term); one query per exit asks for a path with depth != entry depth; unsat for all exits = "
        "balanced on every syntactic path, for inputs of any size. sat models are replayed on Wtp.expand over a page x option catalogue and only a "
        "measured change of Wtp.expand_stack is reported. E1 (CrossHair): message-record shape and start_page reset for symbolic context fields."
    )
    rep.assumptions += [
        "callees (recursive expand_recurse, hooks, parser functions) are balanced - each is itself an encoded function or user code",
        "exceptions escaping the function end the path without obligation (property: calls that return)",
        "branch conditions are uninterpreted: a sat path may be infeasible, hence the replay requirement",
    ]
    rep.trusted += ["CPython ast", "z3", "vf/astpaths.py encoder", "CrossHair 0.0.110"]
    rep.outside += ["exceptions escaping mid-expansion", "Lua-side manipulation of the stack"]
    stack_balance(rep)
    # E1 part
    T = 40 if C.tier() == "quick" else 150
    xh.check_harness(
        rep,
        os.path.join(C.VERIF, "harness", "C16_msgs.py"),
        {
            "^msg_": dict(name="Ob3 message records carry the documented keys/title/section/path", functions=["core.py:Wtp.error/warning/debug/note/wiki_notice"], bounds="symbolic msg,title<=4 chars, trace/sortid/section/subsection unbounded str, expand_stack <=3 strs"),
            "^start_page": dict(name="Ob4 start_page empties the five lists and resets the path (havoc)", engine="E4 havoc via CrossHair", functions=["core.py:Wtp.start_page"], bounds="arbitrary prior lists (<=2 junk records), expand_stack <=3 strs or already [title], previous title arbitrary or equal, title 1..4 chars"),
        },
        timeout=T,
    )


def stack_balance(rep: C.Report, prefix: str = "") -> None:
    """Ob1/Ob2: expand_stack balance on every syntactic path (also used by C05: a path that pops more than it pushed
    makes a later pop raise IndexError out of expand())."""
    ob1 = rep.add(C.Ob(prefix + "Ob1 expand_stack balance on every syntactic path", "E3 AST path encoder + z3", [], "all paths; no bound on input size; loops: per-iteration balance"))
    ob2 = rep.add(C.Ob(prefix + "Ob2 call_lua_sandbox restores the saved depth", "E3 AST path encoder + z3", [], "all paths of call_lua_sandbox incl. exception edges into except/finally; the call into Lua may leave any number L >= 0 of extra entries (Python exceptions swallowed by Lua's pcall inside frame callbacks)"))
    t0 = time.time()
    unbalanced = []
    fn_ranges: dict = {}
    for fname in FILES:
        path = os.path.join(C.SRC, fname)
        try:
            tree = ast.parse(open(path).read())
        except (OSError, SyntaxError) as e:
            ob1.detail += f"{fname}: {e}; "
            continue
        for qual, fn in AP.functions(tree):
            if not AP.directly_contains(fn, _is_event):
                continue
            name = f"{fname}:{'.'.join(qual)}"
            ob = ob2 if qual[-1] == "call_lua_sandbox" else ob1
            ob.functions.append(f"{name}@{fn.lineno}")
            unsup = AP.uses_unsupported(fn, _is_event) + _other_mutation(fn)
            if unsup:
                ob.detail += f"{name}: not encodable ({', '.join(unsup)}); "
                ob.__dict__["_bad"] = True
                continue
            leaks: list = []
            delta_cb = _delta
            if qual[-1] == "call_lua_sandbox":
                # The Lua call re-enters Python through frame callbacks (preprocess, expandTemplate, extensionTag).  A Python
                # exception raised inside a callback is swallowed by Lua's pcall while the entries pushed below it are still
                # on the path: the call into Lua is NOT balanced.  It is modelled as leaving an arbitrary number L >= 0 of
                # extra entries; only restoring the saved depth makes every returning path balanced.
                def delta_cb(n, leaks=leaks):
                    r = _delta(n)
                    if r:
                        return r
                    if isinstance(n, ast.Call) and isinstance(n.func, ast.Attribute) and n.func.attr == "lua_invoke":
                        L = z3.Int(f"left_by_lua_call_{n.lineno}")
                        leaks.append(L)
                        return {"depth": L}
                    return None

            enc = AP.Encoder(fn, ["depth"], delta_cb, restore=("depth", _is_len)).run()
            if enc.notes:
                ob.detail += f"{name}: {enc.notes}; "
            for ex in enc.exits:
                ob.conditions += 1
                s = z3.Solver()
                s.set("timeout", 20000)
                s.set("random_seed", C.seed())
                base = ex.base["depth"] if ex.base is not None else z3.IntVal(0)
                s.add(ex.guard, ex.counters["depth"] != base, *[L >= 0 for L in leaks])
                t = time.time()
                r = str(s.check())
                ob.solver_s += time.time() - t
                ob.queries += 1
                ob.paths += 1
                if r == "unsat":
                    ob.confirmed_conditions += 1
                    if len(ob.samples) < 4:
                        ob.samples.append({"function": name, "exit": ex.kind, "line": ex.line, "query": "guard & depth != entry", "result": "unsat"})
                elif r == "sat":
                    m = s.model()
                    dv = m.eval(ex.counters["depth"] - base, model_completion=True)
                    unbalanced.append((ob, name, fname, ex.kind, ex.line, str(dv), AP.model_path(m, enc)))
                    fn_ranges[(fname, ex.line)] = (fn.lineno, fn.end_lineno)
                else:
                    ob.detail += f"{name} exit {ex.kind}@{ex.line}: solver {r}; "
                    ob.__dict__["_bad"] = True
    # replay
    for ob in (ob1, ob2):
        if not ob.functions:
            ob.verdict = C.NOT_ENCODABLE
            ob.detail += "no function touching expand_stack found; "
    hit_obs = set()
    if unbalanced:
        targets = {(fname, line) for _, _, fname, _, line, _, _ in unbalanced}
        leaks, nrun = find_leaks(targets, ranges=fn_ranges)
        rep.extra["replay_catalogue_runs"] = nrun
        for ob, name, fname, kind, line, dv, path in unbalanced:
            hit = leaks.get((fname, line))
            ob.samples.append({"function": name, "exit": kind, "line": line, "depth_delta": dv, "branch_model": path[:12], "replayed": bool(hit)})
            if hit:
                doc, kwt, before, after = hit
                sig = f"expand_stack leak at exit of {name.split(':')[1]} ({kind}): expand({doc!r}, {kwt})"
                v = rep.violation(sig, f"expand_stack {before} -> {after} after a returning expand() call; unbalanced syntactic path ends at {fname}:{line}", {"doc": doc, "kw": kwt, "line": line})
                ob.__dict__.setdefault("_vs", []).append(v)
                ob.confirmed_conditions += 1
            else:
                ob.detail += f"{name} exit {kind}@{line}: unbalanced path (delta {dv}) found by z3 but none of {nrun} generated page/option runs reproduces a leak through it -> inconclusive; "
                ob.__dict__["_bad"] = True
    for ob in (ob1, ob2):
        if ob.verdict == C.NOT_ENCODABLE:
            continue
        vs = ob.__dict__.get("_vs", [])
        if vs:
            ob.verdict = C.VIOLATED if any(v.known is None for v in vs) else C.KNOWN
        elif ob.__dict__.get("_bad"):
            ob.verdict = C.INCONCLUSIVE
        else:
            ob.verdict = C.DISCHARGED
    ob1.cpu_s = time.time() - t0


def replay(r: dict) -> int:
    from vf.wtpfix import new_ctx

    ctx = make_ctx()
    rp = r["replay"]
    if "doc" in rp:
        kw = {}
        for kws in _option_sets():
            if _kw_text(kws) == rp["kw"]:
                kw = kws
        ctx.start_page("T")
        b = list(ctx.expand_stack)
        ctx.expand(rp["doc"], **kw)
        print("before", b, "after", ctx.expand_stack)
        return 1 if ctx.expand_stack != b else 0
    print("harness-level replay:", rp)
    return 0
