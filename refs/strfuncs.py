"""Reference definitions of the string parser functions, transcribed from the MediaWiki manuals
(Extension:ParserFunctions ##String functions / Help:Magic words), NOT from the code under test.
All arguments are trimmed by MediaWiki before the function sees them, except where noted.
Written with plain loops so that CrossHair can execute them symbolically."""

BLANK = " \t\n\r"


def trim(s: str) -> str:
    i, j = 0, len(s)
    while i < j and s[i] in BLANK:
        i += 1
    while j > i and s[j - 1] in BLANK:
        j -= 1
    return s[i:j]


def r_len(s: str) -> str:
    return str(len(trim(s)))


def find_from(s: str, needle: str, start: int) -> int:
    n, m = len(s), len(needle)
    i = max(start, 0)
    while i + m <= n:
        if s[i : i + m] == needle:
            return i
        i += 1
    return -1


def r_pos(s: str, needle: str, offset: int) -> str:
    """#pos: position of the first occurrence of needle at or after offset; empty when absent.
    An empty needle means a single space."""
    s = trim(s)
    if needle == "":
        needle = " "
    i = find_from(s, needle, offset)
    return "" if i < 0 else str(i)


def r_rpos(s: str, needle: str) -> str:
    """#rpos: position of the last occurrence; -1 when absent."""
    s = trim(s)
    if needle == "":
        needle = " "
    last = -1
    i = find_from(s, needle, 0)
    while i >= 0:
        last = i
        i = find_from(s, needle, i + 1)
    return str(last)


def r_sub(s: str, start: int, length: int) -> str:
    """#sub: substring from `start` (negative: counted from the end) of `length` characters
    (0: to the end; negative: stop that many characters before the end)."""
    s = trim(s)
    n = len(s)
    if start < 0:
        start = n + start
        if start < 0:
            start = 0
    if start > n:
        start = n
    if length == 0:
        end = n
    elif length > 0:
        end = start + length
        if end > n:
            end = n
    else:
        end = n + length
        if end < start:
            end = start
    return s[start:end]


def r_replace(s: str, needle: str, repl: str) -> str:
    s = trim(s)
    if needle == "":
        needle = " "
    out = ""
    i = 0
    m = len(needle)
    while i < len(s):
        if s[i : i + m] == needle:
            out += repl
            i += m
        else:
            out += s[i]
            i += 1
    return out


def split(s: str, delim: str) -> list:
    parts = []
    cur = ""
    i = 0
    m = len(delim)
    while i < len(s):
        if s[i : i + m] == delim:
            parts.append(cur)
            cur = ""
            i += m
        else:
            cur += s[i]
            i += 1
    parts.append(cur)
    return parts


def r_explode(s: str, delim: str, position: int, limit: int) -> str:
    """#explode: the piece at `position` (negative: from the end) after splitting at delim; with a positive
    limit the last piece holds the unsplit rest."""
    s = trim(s)
    if delim == "":
        delim = " "
    parts = split(s, delim)
    if limit > 0 and len(parts) > limit:
        head = parts[: limit - 1]
        rest = parts[limit - 1]
        for p in parts[limit:]:
            rest = rest + delim + p
        parts = head + [rest]
    if position < 0:
        position = len(parts) + position
    if position < 0 or position >= len(parts):
        return ""
    return parts[position]


def r_pad(s: str, n: int, pad: str, left: bool) -> str:
    """padleft / padright: pad s to n characters with (repetitions of) pad, truncated to fit;
    s itself is neither trimmed nor truncated; an empty pad pads nothing."""
    if n > 500:  # "padleft/padright: the length is limited to 500" (Help:Magic words)
        n = 500
    need = n - len(s)
    if need <= 0 or pad == "":
        return s
    fill = ""
    while len(fill) < need:
        fill += pad
    fill = fill[:need]
    return fill + s if left else s + fill


def r_lcfirst(s: str) -> str:
    s = trim(s)
    return s if s == "" else s[0].lower() + s[1:]


def r_ucfirst(s: str) -> str:
    s = trim(s)
    return s if s == "" else s[0].upper() + s[1:]


def r_titleparts(t: str, count: int, first: int) -> str:
    """#titleparts: split the title at '/', return `count` segments (0: all; negative: all but the last |count|)
    starting at segment `first` (1-based; 0 and 1 both mean the first; negative: counted from the end)."""
    t = trim(t)
    segs = split(t, "/")
    n = len(segs)
    if first > 0:
        start = first - 1
    elif first < 0:
        start = n + first
        if start < 0:
            start = 0
    else:
        start = 0
    if start > n:
        start = n
    if count == 0:
        end = n
    elif count > 0:
        end = start + count
        if end > n:
            end = n
    else:
        end = n + count
        if end < start:
            end = start
    out = ""
    for i in range(start, end):
        if i > start:
            out += "/"
        out += segs[i]
    return out


# ---------------------------------------------------------------- urlencode / #urldecode (Help:Magic words#URL data)
UNRESERVED = "ABCDEFGHIJKLMNOPQRSTUVWXYZabcdefghijklmnopqrstuvwxyz0123456789-_."
HEX = "0123456789ABCDEF"


def _utf8(cp: int) -> list:
    if cp < 0x80:
        return [cp]
    if cp < 0x800:
        return [0xC0 | (cp >> 6), 0x80 | (cp & 0x3F)]
    if cp < 0x10000:
        return [0xE0 | (cp >> 12), 0x80 | ((cp >> 6) & 0x3F), 0x80 | (cp & 0x3F)]
    return [0xF0 | (cp >> 18), 0x80 | ((cp >> 12) & 0x3F), 0x80 | ((cp >> 6) & 0x3F), 0x80 | (cp & 0x3F)]


def r_urlencode(s: str, fmt: str, codepoint) -> str:
    """urlencode (CoreParserFunctions::urlencode): the argument is trimmed, then
    QUERY (default) = PHP urlencode: letters, digits and - _ . stay, a space becomes '+', every other byte %XX;
    PATH = PHP rawurlencode: letters, digits and - _ . ~ stay, every other byte (space included) %XX;
    WIKI = wfUrlencode(str_replace(' ', '_', s)): every space becomes '_', then like QUERY except that ; @ $ ! * ( ) , / ~ :
    stay.  `codepoint` maps a character to its code point (passed in so that a harness can use a table instead of ord())."""
    s = trim(s)
    out = []
    for ch in s:
        if ch == " " and fmt == "WIKI":
            out.append("_")
        elif ch == " " and fmt == "QUERY":
            out.append("+")
        elif ch in UNRESERVED or (ch == "~" and fmt != "QUERY") or (fmt == "WIKI" and ch in ";@$!*(),/:"):
            out.append(ch)
        else:
            out.append("".join("%" + HEX[b >> 4] + HEX[b & 15] for b in _utf8(codepoint(ch))))
    return "".join(out)
