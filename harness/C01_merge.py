"""C01 Ob4: _parser_merge_str_children establishes the string-children invariant (CrossHair)."""
from wikitextprocessor import Wtp
from wikitextprocessor.common import MAGIC_LBRACKET_CHAR, MAGIC_NOWIKI_CHAR, MAGIC_RBRACKET_CHAR
from wikitextprocessor.parser import NodeKind, WikiNode, _parser_merge_str_children

ctx = Wtp(quiet=True, quiet_output=True)
SPECIAL = MAGIC_NOWIKI_CHAR + MAGIC_LBRACKET_CHAR + MAGIC_RBRACKET_CHAR
CH = "a\n" + SPECIAL


def merged_ok(kids) -> bool:
    """kids: list of str or None (None stands for a child node)"""
    ctx.start_page("T")
    root = WikiNode(NodeKind.ROOT, 0)
    ctx.parser_stack = [root]
    nodes = []
    for k in kids:
        if k is None:
            n = WikiNode(NodeKind.BOLD, 1)
            nodes.append(n)
            root.children.append(n)
        else:
            root.children.append(k)
    _parser_merge_str_children(ctx)
    out = root.children
    prev_str = False
    for c in out:
        if isinstance(c, str):
            if c == "" or prev_str:
                return False  # empty string / two adjacent strings
            if MAGIC_LBRACKET_CHAR in c or MAGIC_RBRACKET_CHAR in c:
                return False  # internal placeholder survives
            prev_str = True
        else:
            prev_str = False
    # child nodes are kept, in order
    return [c for c in out if not isinstance(c, str)] == nodes


def replay_kids(kids):
    ok = merged_ok(kids)
    return ("_parser_merge_str_children on children " + repr(["<node>" if k is None else k for k in kids]), not ok, "children invariant broken (empty string, adjacent strings, placeholder character or lost node)")
