"""C01 Ob4: _parser_merge_str_children establishes the string-children invariant (CrossHair)."""
from wikitextprocessor import Wtp
from wikitextprocessor.common import MAGIC_LBRACKET_CHAR, MAGIC_NOWIKI_CHAR, MAGIC_RBRACKET_CHAR
from wikitextprocessor.parser import NodeKind, WikiNode, _parser_merge_str_children

ctx = Wtp(quiet=True, quiet_output=True)


def reset_begline(c):
    """representation invariant at a token boundary outside argument re-parsing: beginning-of-line syntax enabled"""
    c.begline_enabled = True
    try:
        c.begline_disable_counter = 0
    except AttributeError:  # the counter slot may have been refactored away
        pass

SPECIAL = MAGIC_NOWIKI_CHAR + MAGIC_LBRACKET_CHAR + MAGIC_RBRACKET_CHAR
CH = "a\n" + SPECIAL


def merged_ok(kids) -> bool:
    """kids: list of str or None (None stands for a child node)"""
    ctx.start_page("T")
    root = WikiNode(NodeKind.ROOT, 0)
    ctx.parser_stack = [root]
    nodes = []
    for k in kids:
        if k is None:
            n = WikiNode(NodeKind.BOLD, 1)
            nodes.append(n)
            root.children.append(n)
        else:
            root.children.append(k)
    _parser_merge_str_children(ctx)
    out = root.children
    prev_str = False
    for c in out:
        if isinstance(c, str):
            if c == "" or prev_str:
                return False  # empty string / two adjacent strings
            if MAGIC_LBRACKET_CHAR in c or MAGIC_RBRACKET_CHAR in c:
                return False  # internal placeholder survives
            prev_str = True
        else:
            prev_str = False
    # child nodes are kept, in order
    return [c for c in out if not isinstance(c, str)] == nodes


def replay_kids(kids):
    ok = merged_ok(kids)
    return ("_parser_merge_str_children on children " + repr(["<node>" if k is None else k for k in kids]), not ok, "children invariant broken (empty string, adjacent strings, placeholder character or lost node)")


# ---------------------------------------------------------------- attribute values carry no placeholder characters
from wikitextprocessor.common import MAGIC_FIRST
from wikitextprocessor.parser import HTMLNode, _parser_pop

COOKIE = chr(MAGIC_FIRST)
ACH = "a " + COOKIE + MAGIC_NOWIKI_CHAR  # both characters reach a quoted attribute value through the preprocessor


def attrs_clean(v: str, table_row: bool) -> bool:
    ctx.start_page("T")
    ctx.cookies = [("T", ("foo",), False)]
    root = WikiNode(NodeKind.ROOT, 0)
    if table_row:
        node = WikiNode(NodeKind.TABLE_ROW, 1)
    else:
        node = HTMLNode(1)
        node.sarg = "span"
    node.attrs["class"] = v
    root.children.append(node)
    ctx.parser_stack = [root, node]
    _parser_pop(ctx, False)
    return all(COOKIE not in x and MAGIC_NOWIKI_CHAR not in x for x in node.attrs.values()) and ctx.parser_stack == [root]


def replay_attrs(v, table_row):
    w = Wtp(quiet=True, quiet_output=True)
    w.start_page("T")
    val = v.replace(COOKIE, "{{foo}}").replace(MAGIC_NOWIKI_CHAR, "<nowiki />")
    doc = ("{|\n|- class=\"" + val + "\"\n| x\n|}") if table_row else ("<span class=\"" + val + "\">x</span>")
    root = w.parse(doc)
    bad = []

    def walk(n):
        if isinstance(n, WikiNode):
            for k, x in n.attrs.items():
                if any(0x100000 <= ord(ch) for ch in x):
                    bad.append((n.kind.name, k, x))
            for c in n.children:
                walk(c)

    walk(root)
    return ("parse(" + repr(doc) + ")", bool(bad), f"internal placeholder character in attribute value: {bad}")


# ---------------------------------------------------------------- external link: URL part moved to largs[0] is merged and finalized
from wikitextprocessor.parser import text_fn


def url_args_ok(kids) -> bool:
    """[url-part ... label]: at the first whitespace the URL node's children become largs[0]; they must already satisfy the
    string-children invariant (nothing merges or finalizes largs later)"""
    ctx.start_page("T")
    ctx.cookies = [("T", ("foo",), False)]
    root = WikiNode(NodeKind.ROOT, 0)
    url = WikiNode(NodeKind.URL, 1)
    root.children.append(url)
    ctx.parser_stack = [root, url]
    ctx.pre_parse = False
    ctx.beginning_of_line = False
    ctx.wsp_beginning_of_line = False
    reset_begline(ctx)
    for k in kids:
        url.children.append(k)
    text_fn(ctx, " ")
    if len(url.largs) != 1 or url.children != []:
        return False
    prev_str = False
    for c in url.largs[0]:
        if isinstance(c, str):
            if c == "" or prev_str or COOKIE in c or MAGIC_LBRACKET_CHAR in c or MAGIC_RBRACKET_CHAR in c:
                return False
            prev_str = True
        else:
            prev_str = False
    return True


def replay_url(kids):
    w = Wtp(quiet=True, quiet_output=True)
    w.start_page("T")
    bad = []
    for doc in ["[http://example.com:8080/path label]", "[http://example.com/{{foo}} label]", "[https://user@host/p t]", "[http://host?q=1 t]"]:
        root = w.parse(doc)

        def walk(n):
            if isinstance(n, WikiNode):
                for lst in n.largs:
                    prev = False
                    for c in lst:
                        if isinstance(c, str):
                            if prev or c == "" or any(ord(ch) >= 0x100000 for ch in c):
                                bad.append((doc, lst))
                            prev = True
                        else:
                            prev = False
                            walk(c)
                for c in n.children:
                    walk(c)

        walk(root)
    return ("parse(" + repr(bad[0][0] if bad else "[http://example.com:8080/path label]") + ")", bool(bad), f"external-link URL argument is not merged/finalized: {bad[:1]}")


# ---------------------------------------------------------------- magic_fn: re-parsing a saved construct returns to the same stack
from wikitextprocessor.parser import _parser_push, magic_fn

ARG_CHOICES = ["x", "''y", "y''", "'''z", "\n----\n", "a''b'''c", "\n* i", "<b>q", "q</b>", " "]
CONSTRUCTS = ["T", "A", "L", "E"]


def magic_step(kind_i: int, a1: int, a2: int, a3: int, in_cell: bool, outer_italic: bool) -> bool:
    """The handler for a saved template / parameter reference / link / external link processes its argument texts and then
    closes everything it opened: afterwards the parser stack is exactly the stack before (same node objects), whatever
    formatting was left open or closed inside the arguments - and no exception."""
    ctx.start_page("T")
    root = WikiNode(NodeKind.ROOT, 0)
    ctx.parser_stack = [root]
    ctx.pre_parse = False
    ctx.linenum = 3
    ctx.suppress_special = False
    reset_begline(ctx)
    ctx.beginning_of_line = False
    ctx.wsp_beginning_of_line = False
    if in_cell:
        _parser_push(ctx, NodeKind.TABLE)
        _parser_push(ctx, NodeKind.TABLE_ROW)
        _parser_push(ctx, NodeKind.TABLE_CELL)
    if outer_italic:
        _parser_push(ctx, NodeKind.ITALIC)
    kind = CONSTRUCTS[kind_i]
    if kind == "E":  # an external link is saved with one argument: its whole content
        ctx.cookies = [(kind, ("http://e.x " + ARG_CHOICES[a1] + " " + ARG_CHOICES[a2],), False)]
    else:
        ctx.cookies = [(kind, ("n", ARG_CHOICES[a1], ARG_CHOICES[a2], ARG_CHOICES[a3]), False)]
    before = list(ctx.parser_stack)
    magic_fn(ctx, COOKIE)
    st = ctx.parser_stack
    # nodes opened before the construct may have been closed from inside it (a rule line inside an argument closes the
    # enclosing table on the pinned tree as well - questionable, but not what the property forbids); what must hold: ROOT stays,
    # nothing opened inside the construct is left open
    if kind == "E":
        # an external link whose URL node was closed from inside (e.g. by closing an italic opened before it) degrades to text:
        # formatting opened in that text legitimately stays open until the end of the line
        return len(st) >= 1 and st[0] is root
    return len(st) >= 1 and st[0] is root and all(n in before for n in st)


def replay_magic_step(kind_i, a1, a2, a3, in_cell, outer_italic):
    w = Wtp(quiet=True, quiet_output=True)
    w.start_page("T")
    kind = CONSTRUCTS[kind_i]
    args = [ARG_CHOICES[a1], ARG_CHOICES[a2], ARG_CHOICES[a3]]
    inner = {"T": "{{n|%s}}", "A": "{{{n|%s}}}", "L": "[[n|%s]]", "E": "[http://e.x %s]"}[kind] % ("|".join(args) if kind != "E" else " ".join(args[:2]))
    doc = ("''o " if outer_italic else "") + inner
    if in_cell:
        doc = "{|\n| " + doc + "\n|}"
    try:
        r = w.parse(doc)
        bad = r is None or bool(w.parser_stack)
        what = "parser stack left non-empty" if bad else ""
    except Exception as e:  # noqa: BLE001
        bad, what = True, f"parse() raises {type(e).__name__}: {e}"
    return ("parse(" + repr(doc) + ")", bad, what)


# ---------------------------------------------------------------- link trail: text arriving after a closed link
def link_trail_step(has_trail: bool, tok: str, tok2: str) -> bool:
    """text_fn with a closed LINK as the last child of the open node: word characters that directly follow a link are
    moved into the link's children (the link trail).  Whatever arrives - one token or two tokens in a row (a silently
    dropped tag may sit between them) - the link keeps at most ONE string child (no two adjacent strings: closed nodes are
    never merged again), no character is lost and the order is kept."""
    ctx.start_page("T")
    root = WikiNode(NodeKind.ROOT, 0)
    ctx.parser_stack = [root]
    ctx.pre_parse = False
    ctx.suppress_special = False
    ctx.beginning_of_line = False
    ctx.wsp_beginning_of_line = False
    reset_begline(ctx)
    link = WikiNode(NodeKind.LINK, 0)
    link.largs = [["dog"]]
    if has_trail:
        link.children.append("s")
    root.children.append("x")
    root.children.append(link)
    text_fn(ctx, tok)
    if tok2:
        text_fn(ctx, tok2)
    lk = link.children
    if not all(isinstance(k, str) for k in lk) or len(lk) > 1:
        return False
    after = root.children[2:]
    if not all(isinstance(k, str) for k in after):
        return False
    return "".join(lk) + "".join(after) == ("s" if has_trail else "") + tok + tok2


def replay_link_trail(has_trail, tok, tok2):
    w = Wtp(quiet=True, quiet_output=True)
    w.start_page("T")
    doc = "x[[dog]]" + ("s<noinclude/>" if has_trail else "") + tok + ("<noinclude/>" + tok2 if tok2 else "")
    root = w.parse(doc)
    bad = []

    def walk(n):
        if isinstance(n, WikiNode):
            ks = n.children
            for a, b in zip(ks, ks[1:]):
                if isinstance(a, str) and isinstance(b, str):
                    bad.append((n.kind.name, ks))
            for c in ks:
                walk(c)

    walk(root)
    return ("parse(" + repr(doc) + ")", bool(bad), f"two adjacent strings in the children of a node: {bad[:2]}")


# ---------------------------------------------------------------- tokenizer: quote masking inside tags is undone
from wikitextprocessor.common import MAGIC_SQUOTE_CHAR
from wikitextprocessor.parser import token_iter


def tokens_unmasked(level: int, q: str, v: str) -> bool:
    """token_iter masks single quotes inside HTML tags while it looks for bold/italic runs; whatever the line is (plain or
    the title of a heading, which is tokenized by a recursive call), no yielded token carries the mask character, and the
    tokens spell the line."""
    ctx.start_page("T")
    tag = "<b t=" + q + v + q + " u='w'>"
    line = ("=" * level + " " if level else "") + "p" + tag + "x</b>" + (" " + "=" * level if level else "")
    toks = [t for _, t in token_iter(ctx, line)]
    for t in toks:
        if MAGIC_SQUOTE_CHAR in t:
            return False
    body = "".join(t for t in toks if not (t[:1] in "<>" and t[1:2] == "="))
    return body.replace(" ", "") == ("p" + tag + "x</b>").replace(" ", "")


def replay_tokens_unmasked(level, q, v):
    w = Wtp(quiet=True, quiet_output=True)
    w.start_page("T")
    tag = "<b t=" + q + v + q + " u='w'>"
    doc = ("=" * level + " " if level else "") + "p" + tag + "x</b>" + (" " + "=" * level if level else "")
    root = w.parse(doc)
    bad = []

    def walk(n):
        if isinstance(n, WikiNode):
            for k, val in (n.attrs or {}).items():
                if any(ord(c) >= 0x10203E for c in str(k) + str(val)):
                    bad.append((n.kind.name, k, val))
            for c in n.children:
                walk(c)
            for a in n.largs:
                for c in a:
                    walk(c)
        elif isinstance(n, str) and any(ord(c) >= 0x10203E for c in n):
            bad.append(("text", n))

    walk(root)
    return ("parse(" + repr(doc) + ")", bool(bad), f"an internal placeholder character appears in the tree: {bad[:2]}")


# ---------------------------------------------------------------- to_wikitext() is total on the nodes parse() feeds it
# parse() renders the non-string children of a TABLE / TABLE_ROW back to wikitext (check_for_attributes) to decide whether
# they form an attribute section: an exception in to_wikitext() is an exception out of parse().
from wikitextprocessor.node_expand import to_wikitext

TW_KINDS = [k for k in NodeKind if k != NodeKind.ROOT]
TW_TAGS = ["span", "br", "hl", "foo", "b", "ref"]  # allowed paired / void tags, the stray-end-tag case "hl", an extension tag
TW_SRC = {
    "LINK": "[[a|b]]", "TEMPLATE": "{{a|b}}", "TEMPLATE_ARG": "{{{a|b}}}", "PARSER_FN": "{{#if:a|b}}", "URL": "[http://a b]", "ITALIC": "''b''", "BOLD": "'''b'''",
    "MAGIC_WORD": "__TOC__", "PRE": "<pre>b</pre>",
}


def _pick_tw(x, n: int) -> int:
    for v in range(n):
        if x == v:
            return v
    raise AssertionError("outside the precondition")


def _tw_node(ki: int, ti: int, has_children: bool, has_attrs: bool):
    kind = TW_KINDS[ki]
    n = HTMLNode(1) if kind == NodeKind.HTML else WikiNode(kind, 1)
    if kind == NodeKind.HTML:
        n.sarg = TW_TAGS[ti]
    elif kind in (NodeKind.LIST, NodeKind.LIST_ITEM):
        n.sarg = "*"
    elif kind == NodeKind.MAGIC_WORD:
        n.sarg = "__TOC__"
    if kind in (NodeKind.LINK, NodeKind.TEMPLATE, NodeKind.TEMPLATE_ARG, NodeKind.PARSER_FN, NodeKind.URL) or kind.name.startswith("LEVEL"):
        n.largs = [["a"], ["b"]] if kind != NodeKind.PARSER_FN else [["#if"], ["a"], ["b"]]
    if has_children:
        n.children.append("c")
    if has_attrs:
        n.attrs["class"] = "k"
    return n


def towt_total(ki, ti, has_children, has_attrs) -> bool:
    from crosshair.tracers import NoTracing, is_tracing

    if is_tracing():
        ki, ti = _pick_tw(ki, len(TW_KINDS)), _pick_tw(ti, len(TW_TAGS))
        has_children, has_attrs = (True if has_children else False), (True if has_attrs else False)
        with NoTracing():
            return isinstance(to_wikitext(_tw_node(ki, ti, has_children, has_attrs)), str)
    return isinstance(to_wikitext(_tw_node(ki, ti, has_children, has_attrs)), str)


def replay_towt(ki, ti, has_children, has_attrs):
    """through parse(): the construct in the attribute region of a table and of a table row"""
    kind = TW_KINDS[ki]
    tag = TW_TAGS[ti]
    attrs = ' class="k"' if has_attrs else ""
    if kind == NodeKind.HTML:
        srcs = ["<" + tag + attrs + ">c</" + tag + ">"] if has_children else ["</" + tag + ">", "<" + tag + attrs + "/>", "<" + tag + attrs + "></" + tag + ">"]
    else:
        srcs = [TW_SRC.get(kind.name, "x")]
    for ext in (False, True):
        for src in srcs:
            for doc in ("{| " + src + "\n|-\n| x\n|}", "{|\n|- " + src + "\n| x\n|}"):
                w = Wtp(quiet=True, quiet_output=True, extension_tags={"foo": {"parents": ["phrasing"], "content": ["phrasing"]}}) if ext else Wtp(quiet=True, quiet_output=True)
                w.start_page("T")
                try:
                    root = w.parse(doc)
                    bad, what = not (isinstance(root, WikiNode) and root.kind == NodeKind.ROOT), "parse() does not return a ROOT node"
                except Exception as e:  # noqa: BLE001
                    bad, what = True, f"parse() raises {type(e).__name__}: {e}"
                if bad:
                    return ("parse(" + repr(doc) + ")" + (" on Wtp(extension_tags={'foo': ...})" if ext else ""), True, what)
    return ("parse() of tables with a " + kind.name + " node in the attribute region", False, "")


# ---------------------------------------------------------------- a heading keeps its title whatever saved construct the title holds
from wikitextprocessor.parser import process_text, subtitle_end_fn, subtitle_start_fn

HDR_ARGS = ["x", "a\nb", "''y''", " ", "a\n\nb", "\n"]
HDR_LEVEL_KINDS = {1: NodeKind.LEVEL1, 2: NodeKind.LEVEL2, 3: NodeKind.LEVEL3, 4: NodeKind.LEVEL4, 5: NodeKind.LEVEL5, 6: NodeKind.LEVEL6}


def hdrarg_step(kind_i, ai, level, italic) -> bool:
    """the solver picks the case; the parser functions run untraced (concrete tokens)"""
    from crosshair.tracers import NoTracing, is_tracing

    if is_tracing():
        kind_i, ai, level = _pick_tw(kind_i, 4), _pick_tw(ai, len(HDR_ARGS)), 1 + _pick_tw(level - 1, 6)
        italic = True if italic else False
        with NoTracing():
            return _hdrarg_step(kind_i, ai, level, italic)
    return _hdrarg_step(kind_i, ai, level, italic)


def _hdrarg_step(kind_i: int, ai: int, level: int, italic: bool) -> bool:
    """`== <saved construct> ==`: the tokenizer emits the heading's start and end token for one (encoded) line; whatever the
    construct's arguments contain - line breaks included - the end token finds its start token: the LEVELn node gets exactly
    one argument (its title, the documented shape) and stays the open section."""
    ctx.start_page("T")
    root = WikiNode(NodeKind.ROOT, 0)
    ctx.parser_stack = [root]
    ctx.pre_parse = False
    ctx.linenum = 3
    ctx.suppress_special = False
    reset_begline(ctx)
    ctx.beginning_of_line = True
    ctx.wsp_beginning_of_line = False
    kind = CONSTRUCTS[kind_i]
    arg = HDR_ARGS[ai]
    ctx.cookies = [(kind, ("http://e.x " + arg,) if kind == "E" else ("n", arg), False)]
    # the tokens of the line `== ''<cookie>'' ==` as process_text sees them
    subtitle_start_fn(ctx, "<" + "=" * level)
    node = ctx.parser_stack[-1]
    ctx.beginning_of_line = False
    process_text(ctx, ("''" if italic else "") + COOKIE + ("''" if italic else ""))
    subtitle_end_fn(ctx, ">" + "=" * level)
    return node.kind == HDR_LEVEL_KINDS[level] and len(node.largs) == 1 and ctx.parser_stack == [root, node] and node.children == []


def replay_hdrarg(kind_i, ai, level, italic):
    w = Wtp(quiet=True, quiet_output=True)
    w.start_page("T")
    kind = CONSTRUCTS[kind_i]
    inner = {"T": "{{n|%s}}", "A": "{{{n|%s}}}", "L": "[[n|%s]]", "E": "[http://e.x %s]"}[kind] % HDR_ARGS[ai]
    q = "''" if italic else ""
    doc = "=" * level + " " + q + inner + q + " " + "=" * level + "\ntext\n"
    if kind == "E" and "\n" in HDR_ARGS[ai]:
        return ("parse(" + repr(doc) + ")", False, "an external link does not span lines: not a saved construct")
    root = w.parse(doc)
    secs = [c for c in root.children if isinstance(c, WikiNode) and c.kind == HDR_LEVEL_KINDS[level]]
    bad = len(secs) != 1 or len(secs[0].largs) != 1
    return ("parse(" + repr(doc) + ")", bad, f"the heading node has argument lists {[n.largs for n in secs]} (documented shape: exactly one, the title); top-level children {[c if isinstance(c, str) else c.kind.name for c in root.children]}")
