"""C03: table one-step lemmas and attribute parsing (CrossHair).

Table state abstraction at a token: [.., TABLE] optionally followed by CAPTION, or by ROW holding closed cells
(each header or data) and optionally one open cell.  Built with the real _parser_push; reachable by construction."""
from wikitextprocessor import Wtp
from wikitextprocessor.parser import (
    NodeKind,
    WikiNode,
    _parser_push,
    double_vbar_fn,
    parse_attrs,
    table_caption_fn,
    table_cell_fn,
    table_end_fn,
    table_hdr_cell_fn,
    table_row_fn,
    vbar_fn,
    check_for_attributes,
)

ctx = Wtp(quiet=True, quiet_output=True)


def reset_begline(c):
    """representation invariant at a token boundary outside argument re-parsing: beginning-of-line syntax enabled"""
    c.begline_enabled = True
    try:
        c.begline_disable_counter = 0
    except AttributeError:  # the counter slot may have been refactored away
        pass

K = NodeKind


def build(has_row: bool, h0: bool, h1: bool, n_closed: int, open_kind: int, caption: bool, txt: str, bol: bool):
    """open_kind: 0 none, 1 data cell, 2 header cell"""
    ctx.start_page("T")
    root = WikiNode(K.ROOT, 0)
    ctx.parser_stack = [root]
    ctx.pre_parse = False
    ctx.linenum = 5
    ctx.suppress_special = False
    reset_begline(ctx)
    ctx.beginning_of_line = False
    ctx.wsp_beginning_of_line = False
    table = _parser_push(ctx, K.TABLE)
    row = None
    if caption:
        cap = _parser_push(ctx, K.TABLE_CAPTION)
        cap.children.append(txt)
    elif has_row:
        row = _parser_push(ctx, K.TABLE_ROW)
        for i in range(n_closed):
            c = WikiNode(K.TABLE_HEADER_CELL if (h0 if i == 0 else h1) else K.TABLE_CELL, 4)
            c.children.append("c%d\n" % i)
            row.children.append(c)
        if open_kind:
            cell = _parser_push(ctx, K.TABLE_HEADER_CELL if open_kind == 2 else K.TABLE_CELL)
            cell.children.append(txt)
    ctx.beginning_of_line = bol
    return root, table, row


def kinds(stack):
    return [n.kind for n in stack]


def valid(has_row, n_closed, open_kind, caption) -> bool:
    if caption:
        return not has_row and n_closed == 0 and open_kind == 0
    if not has_row:
        return n_closed == 0 and open_kind == 0
    return True


def last_cell_kind(row, stack_before, open_kind, h0, h1, n_closed):
    if open_kind:
        return K.TABLE_HEADER_CELL if open_kind == 2 else K.TABLE_CELL
    if n_closed:
        return K.TABLE_HEADER_CELL if (h0 if n_closed == 1 else h1) else K.TABLE_CELL
    return None


def row_step(has_row, h0, h1, n_closed, open_kind, caption, txt) -> bool:
    root, table, row = build(has_row, h0, h1, n_closed, open_kind, caption, txt, True)
    table_row_fn(ctx, "|-")
    st = ctx.parser_stack
    return kinds(st) == [K.ROOT, K.TABLE, K.TABLE_ROW] and st[1] is table and st[2] is not row and table.children[-1] is st[2] and st[2].children == []


def cell_step(header: bool, has_row, h0, h1, n_closed, open_kind, txt) -> bool:
    """line-start | or !"""
    root, table, row = build(has_row, h0, h1, n_closed, open_kind, False, txt, True)
    n_before = len(row.children) if row is not None else 0
    (table_hdr_cell_fn if header else table_cell_fn)(ctx, "!" if header else "|")
    st = ctx.parser_stack
    want = K.TABLE_HEADER_CELL if header else K.TABLE_CELL
    if kinds(st) != [K.ROOT, K.TABLE, K.TABLE_ROW, want]:
        return False
    r = st[2]
    if row is not None and r is not row:
        return False
    return r.children[-1] is st[3] and len(r.children) == n_before + 1 and st[3].children == []


def dvbar_step(h0, h1, n_closed, open_kind, txt) -> bool:
    """mid-line || : a sibling cell of the kind of the cell it follows"""
    root, table, row = build(True, h0, h1, n_closed, open_kind, False, txt, False)
    prev = last_cell_kind(row, None, open_kind, h0, h1, n_closed)
    n_before = len(row.children)
    double_vbar_fn(ctx, "||")
    st = ctx.parser_stack
    want = K.TABLE_HEADER_CELL if prev == K.TABLE_HEADER_CELL else K.TABLE_CELL
    return kinds(st) == [K.ROOT, K.TABLE, K.TABLE_ROW, want] and st[2] is row and row.children[-1] is st[3] and len(row.children) == n_before + 1


def dexcl_step(h0, h1, n_closed, txt) -> bool:
    """mid-line !! inside a header cell: a sibling header cell"""
    root, table, row = build(True, h0, h1, n_closed, 2, False, txt, False)
    n_before = len(row.children)
    table_hdr_cell_fn(ctx, "!!")
    st = ctx.parser_stack
    return kinds(st) == [K.ROOT, K.TABLE, K.TABLE_ROW, K.TABLE_HEADER_CELL] and st[2] is row and len(row.children) == n_before + 1


def caption_step(has_row, h0, h1, n_closed, open_kind, txt) -> bool:
    root, table, row = build(has_row, h0, h1, n_closed, open_kind, False, txt, True)
    table_caption_fn(ctx, "|+")
    st = ctx.parser_stack
    return kinds(st) == [K.ROOT, K.TABLE, K.TABLE_CAPTION] and st[1] is table and table.children[-1] is st[2]


def end_step(has_row, h0, h1, n_closed, open_kind, caption, txt) -> bool:
    root, table, row = build(has_row, h0, h1, n_closed, open_kind, caption, txt, True)
    table_end_fn(ctx, "|}")
    return kinds(ctx.parser_stack) == [K.ROOT] and root.children[-1] is table


# ---------------------------------------------------------------- replay: canonical table text through Wtp.parse
def canonical(has_row, h0, h1, n_closed, open_kind, caption, txt, last):
    lines = ["{|"]
    if caption:
        lines.append("|+ " + txt)
    elif has_row:
        lines.append("|-")
        for i in range(n_closed):
            lines.append(("! " if (h0 if i == 0 else h1) else "| ") + "c%d" % i)
        if open_kind:
            lines.append(("! " if open_kind == 2 else "| ") + txt)
    return "\n".join(lines) + last


def table_shape(doc):
    w = Wtp(quiet=True, quiet_output=True)
    w.start_page("T")
    root = w.parse(doc)

    def sh(n):
        if isinstance(n, str):
            return None
        return (n.kind.name, [x for x in (sh(c) for c in n.children) if x is not None])

    return [x for x in (sh(c) for c in root.children) if x is not None]


def ref_shape(doc):
    """independent reference for the simple table grammar used in the canonical documents"""
    tables = []
    table = row = None
    last_kind = None
    for line in doc.split("\n"):
        if line.startswith("{|"):
            table = ("TABLE", [])
            tables.append(table)
            row = None
        elif table is None:
            continue
        elif line.startswith("|}"):
            table = row = None
        elif line.startswith("|+"):
            table[1].append(("TABLE_CAPTION", []))
            row = None
        elif line.startswith("|-"):
            row = ("TABLE_ROW", [])
            table[1].append(row)
        elif line[:1] in "|!":
            if row is None:
                row = ("TABLE_ROW", [])
                table[1].append(row)
            kind = "TABLE_HEADER_CELL" if line[0] == "!" else "TABLE_CELL"
            parts = line[1:].replace("!!", "||").split("||") if kind == "TABLE_HEADER_CELL" else line[1:].split("||")
            for _ in parts:
                row[1].append((kind, []))
    return tables


def replay_table(doc):
    got, want = table_shape(doc), ref_shape(doc)
    return ("parse(" + repr(doc) + ")", got != want, f"table structure {got} differs from the written grid {want}")


# ---------------------------------------------------------------- attribute parsing
def attrs_of(written: str):
    n = WikiNode(K.HTML, 1)
    parse_attrs(n, written)
    return dict(n.attrs)


def _api_attrs(written, want):
    w = Wtp(quiet=True, quiet_output=True)
    w.start_page("T")
    root = w.parse("<span " + written + ">x</span>")
    nodes = [c for c in root.children if isinstance(c, WikiNode)]
    got = dict(nodes[0].attrs) if nodes else None
    return ("parse(" + repr("<span " + written + ">x</span>") + ")", got != want, f"attribute map {got!r}, written {want!r}")


# ---------------------------------------------------------------- attributes on tables, rows and cells
def _fresh_table():
    ctx.start_page("T")
    root = WikiNode(K.ROOT, 0)
    ctx.parser_stack = [root]
    ctx.pre_parse = False
    ctx.linenum = 5
    ctx.suppress_special = False
    reset_begline(ctx)
    ctx.beginning_of_line = False
    ctx.wsp_beginning_of_line = False
    return root, _parser_push(ctx, K.TABLE)


def table_attr_step(s: str, klen: int, vstart: int, vlen: int) -> bool:
    """{| <attrs>  then a row token: the text becomes the table's attribute map"""
    root, table = _fresh_table()
    table.children.append(" " + s + "\n")
    ctx.beginning_of_line = True
    table_row_fn(ctx, "|-")
    return dict(table.attrs) == {s[:klen]: s[vstart : vstart + vlen]} and [c for c in table.children if isinstance(c, str)] == []


def row_attr_step(s: str, klen: int, vstart: int, vlen: int, header: bool) -> bool:
    """|- <attrs>  then a cell token at line start: the text becomes the row's attribute map"""
    root, table = _fresh_table()
    row = _parser_push(ctx, K.TABLE_ROW)
    row.children.append(" " + s + "\n")
    ctx.beginning_of_line = True
    (table_hdr_cell_fn if header else table_cell_fn)(ctx, "!" if header else "|")
    return dict(row.attrs) == {s[:klen]: s[vstart : vstart + vlen]} and [c for c in row.children if isinstance(c, str)] == [] and ctx.parser_stack[-1].kind == (K.TABLE_HEADER_CELL if header else K.TABLE_CELL)


def cell_attr_step(s: str, klen: int, vstart: int, vlen: int, header: bool) -> bool:
    """| <attrs> | content : the text before the single bar becomes the cell's attribute map"""
    root, table = _fresh_table()
    row = _parser_push(ctx, K.TABLE_ROW)
    cell = _parser_push(ctx, K.TABLE_HEADER_CELL if header else K.TABLE_CELL)
    cell.children.append(" " + s + " ")
    before = list(ctx.parser_stack)
    vbar_fn(ctx, "|")
    return ctx.parser_stack == before and dict(cell.attrs) == {s[:klen]: s[vstart : vstart + vlen]} and cell.children == []


def replay_attr_place(s, klen, vstart, vlen, where, header=False):
    want = {s[:klen]: s[vstart : vstart + vlen]}
    if where == "table":
        doc = "{| " + s + "\n|-\n| x\n|}"
    elif where == "row":
        doc = "{|\n|- " + s + "\n" + ("! " if header else "| ") + "x\n|}"
    else:
        doc = "{|\n|-\n" + ("! " if header else "| ") + s + " | x\n|}"
    w = Wtp(quiet=True, quiet_output=True)
    w.start_page("T")
    root = w.parse(doc)
    found = []

    def walk(n):
        if isinstance(n, WikiNode):
            if (where == "table" and n.kind == K.TABLE) or (where == "row" and n.kind == K.TABLE_ROW) or (where == "cell" and n.kind in (K.TABLE_CELL, K.TABLE_HEADER_CELL)):
                found.append(dict(n.attrs))
            for c in n.children:
                walk(c)

    walk(root)
    return ("parse(" + repr(doc) + ")", not found or found[0] != want, f"{where} attributes {found[:1]}, written {want}")


# ---------------------------------------------------------------- argument separator inside links / templates / parameter references
def vbar_args_step(kind_i: int, n_prev: int, txt: str) -> bool:
    """`|` inside an argument-carrying node closes the current argument: the collected children become the next entry of
    largs, in order, and collection restarts empty; the stack does not change."""
    kinds = [K.LINK, K.TEMPLATE, K.TEMPLATE_ARG, K.PARSER_FN]
    ctx.start_page("T")
    root = WikiNode(K.ROOT, 0)
    ctx.parser_stack = [root]
    ctx.pre_parse = False
    ctx.linenum = 2
    ctx.suppress_special = False
    reset_begline(ctx)
    ctx.beginning_of_line = False
    ctx.wsp_beginning_of_line = False
    node = _parser_push(ctx, kinds[kind_i])
    prev = [["p%d" % i] for i in range(n_prev)]
    node.largs = [list(x) for x in prev]
    node.children.append(txt)
    before = list(ctx.parser_stack)
    vbar_fn(ctx, "|")
    return ctx.parser_stack == before and node.children == [] and node.largs == prev + [[txt]]


def replay_vbar_args(kind_i, n_prev, txt):
    w = Wtp(quiet=True, quiet_output=True)
    w.start_page("T")
    opener, closer = [("[[", "]]"), ("{{", "}}"), ("{{{", "}}}"), ("{{#if:", "}}")][kind_i]
    args = ["p%d" % i for i in range(n_prev)] + [txt, "last"]
    doc = opener + "|".join(args) + closer
    root = w.parse(doc)
    nodes = [c for c in root.children if isinstance(c, WikiNode)]
    got = [a for a in (nodes[0].largs if nodes else [])]
    flat = ["".join(x for x in a if isinstance(x, str)) for a in got]
    want = args if kind_i != 3 else None
    bad = want is not None and flat != want
    return ("parse(" + repr(doc) + ")", bad, f"argument list {flat}, written {want}")


# ---------------------------------------------------------------- nesting of `with ctx.begline_disabled`
def begline_nesting(o0: bool, o1: bool, o2: bool, o3: bool, o4: bool, o5: bool) -> bool:
    """magic_fn re-parses every argument list inside `with ctx.begline_disabled:`; argument lists nest (a link inside a
    template argument ...).  For every well-nested sequence of enters/exits: beginning-of-line syntax is enabled exactly when
    no `with` block is open."""
    reset_begline(ctx)
    mgr = ctx.begline_disabled
    depth = 0
    for enter in (o0, o1, o2, o3, o4, o5):
        if enter:
            mgr.__enter__()
            depth += 1
        elif depth > 0:
            mgr.__exit__(None, None, None)
            depth -= 1
        if ctx.begline_enabled != (depth == 0):
            return False
    return True


def replay_begline_nesting(o0, o1, o2, o3, o4, o5):
    w = Wtp(quiet=True, quiet_output=True)
    w.start_page("T")
    bad = []
    for doc, kinds_forbidden in [("{{t|[[a|b]]\n x|c}}", ("PREFORMATTED", "LIST")), ("{{t|{{u|a}}|q\n# y}}", ("LIST", "PREFORMATTED")), ("[[a|{{u|a}}\n y]]", ("PREFORMATTED",))]:
        root = w.parse(doc)
        found = []

        def walk(n):
            if isinstance(n, WikiNode):
                found.append(n.kind.name)
                for c in n.children:
                    walk(c)
                for a in n.largs:
                    for c in a:
                        walk(c)

        walk(root)
        if any(k in found for k in kinds_forbidden):
            bad.append((doc, [k for k in found if k in kinds_forbidden]))
    return ("parse(" + repr(bad[0][0] if bad else "{{t|[[a|b]]\n x|c}}") + ")", bool(bad), f"beginning-of-line syntax is interpreted inside an argument list after a nested construct: {bad[:2]}")


# ---------------------------------------------------------------- cell separators inside an open nested construct are text
INNER_KINDS = ["HTML", "LINK", "TEMPLATE", "URL"]


def sep_inside_step(inner: int, open_kind: int, tok: int, ch: str) -> bool:
    """A table cell whose content has an open inline HTML element / link / template / external link: the mid-line tokens
    `!!`, `!` (every kind) and `||` (HTML element) do not end the cell - the stack stays as it is and the token becomes text
    of the open construct (for `||` inside a link/template it is the argument separator, decided by Ob6)."""
    root, table, row = build(True, False, False, 0, open_kind, False, "a", False)
    kind = getattr(K, INNER_KINDS[inner])
    node = _parser_push(ctx, kind)
    if kind == K.HTML:
        node.sarg = "span"
        node.attrs = {}
    node.children.append(ch)
    before = list(ctx.parser_stack)
    token = ["!!", "!", "||"][tok]
    if token == "||":
        double_vbar_fn(ctx, token)
    else:
        table_hdr_cell_fn(ctx, token)
    if len(ctx.parser_stack) != len(before) or any(a is not b for a, b in zip(ctx.parser_stack, before)):
        return False
    return all(isinstance(k, str) for k in node.children) and "".join(node.children) == ch + token


def replay_sep_inside(inner, open_kind, tok, ch):
    """the token must behave like ordinary text: the tree (node kinds, string lengths) equals that of the same document with Q.. in its place"""
    w = Wtp(quiet=True, quiet_output=True)
    token = ["!!", "!", "||"][tok]
    opener, closer = {"HTML": ("<span>", "</span>"), "LINK": ("[[", "]]"), "TEMPLATE": ("{{", "}}"), "URL": ("[http://e.org ", "]")}[INNER_KINDS[inner]]
    lead = "! " if open_kind == 2 else "| "

    def shape(n, t):
        # strings by length only: the neutral text has the length of the token
        f = lambda c: shape(c, t) if isinstance(c, WikiNode) else len(c)  # noqa: E731
        return (n.kind.name, [f(c) for c in n.children], [[f(c) for c in a] for a in n.largs])

    docs = []
    for t in (token, "Q" * len(token)):
        doc = "{|\n|-\n" + lead + "a" + opener + "x" + ch + t + "b" + closer + "z\n|}"
        w.start_page("T")
        docs.append((doc, shape(w.parse(doc), t)))
    bad = docs[0][1] != docs[1][1]
    return ("parse(" + repr(docs[0][0]) + ")", bad, f"a cell separator inside an open {INNER_KINDS[inner]} construct is not treated as text: tree {docs[0][1]}, with plain text in its place {docs[1][1]}")


# ---------------------------------------------------------------- parser flags left behind by an earlier parse() call
CARRY_DOC = "{|class=\"c\"\n|+ cap\n|-\n! h1 !! h2\n|-\n| a || [[b|c]]\n|}\n<div id=\"d\"><span>s</span></div>"


def _full(n):
    if isinstance(n, WikiNode):
        return (n.kind.name, n.sarg, dict(n.attrs) if n.attrs else {}, [_full(c) for c in n.children], [[_full(c) for c in a] for a in n.largs])
    return n


_fresh = Wtp(quiet=True, quiet_output=True)
_fresh.start_page("T")
CARRY_WANT = _full(_fresh.parse(CARRY_DOC))


def carry_over(pre_parse: bool, bol: bool, wsp: bool, supp: bool) -> bool:
    """whatever per-parse flags an earlier parse() on the same context left behind (an unclosed <pre>, a line that ended in
    the middle of a construct ...), parse() of a table / HTML document gives the tree a fresh context gives"""
    ctx.start_page("T")
    ctx.pre_parse = pre_parse
    ctx.beginning_of_line = bol
    ctx.wsp_beginning_of_line = wsp
    ctx.suppress_special = supp
    reset_begline(ctx)
    return _full(ctx.parse(CARRY_DOC)) == CARRY_WANT


def replay_carry_over(pre_parse, bol, wsp, supp):
    w = Wtp(quiet=True, quiet_output=True)
    for first in ("<pre>unclosed", "x\n {{t|", "[[a|", "''i", "<nowiki>"):
        w.start_page("T")
        w.parse(first)
        w.start_page("T")
        got = _full(w.parse(CARRY_DOC))
        if got != CARRY_WANT:
            return (f"one context: parse({first!r}); start_page; parse({CARRY_DOC!r})", True, f"the table / HTML document parses differently after the first call: {str(got)[:200]}")
    return ("parse histories", False, "")


# ---------------------------------------------------------------- external links of every scheme of URL_STARTS
from wikitextprocessor.common import URL_STARTS

N_SCHEMES = len(URL_STARTS)
EXT_CH = "a.-_~"
EXT_WHERE = [("", ""), ("{|\n| c ", "\n|}"), ("* i ", "\n"), ("<span>", "</span>"), ("[[t|", " ]]")]


def _pick3(x, n: int) -> int:
    for v in range(n):
        if x == v:
            return v
    raise AssertionError("outside the precondition")


def _extlink_doc(scheme: int, label: bool, where: int, ci: int):
    target = URL_STARTS[scheme] + "e.org/" + EXT_CH[ci] + "b"
    pre, post = EXT_WHERE[where]
    return pre + "[" + target + (" l m" if label else "") + "]" + post, [[target], ["l m"]] if label else [[target]]


def _extlink_bad(scheme: int, label: bool, where: int, ci: int):
    doc, want = _extlink_doc(scheme, label, where, ci)
    w = Wtp(quiet=True, quiet_output=True)
    w.start_page("T")
    root = w.parse(doc)
    found = []

    def walk(n):
        if isinstance(n, WikiNode):
            if n.kind == K.URL:
                found.append(n.largs)
            for c in n.children:
                walk(c)
            for a in n.largs:
                for c in a:
                    walk(c)

    walk(root)
    return doc, found != [want], f"external link: URL nodes {found}, written arguments {want}"


def extlink_step(scheme, label, where, ci) -> bool:
    """[target label] with a target that starts with any entry of URL_STARTS (common.py: "Strings used to identify valid
    external links") is one URL node with largs [[target], [label]] - at top level, in a table cell, a list item, an HTML
    element and a link argument.  The solver picks the case; parse() itself runs untraced (regular expressions over
    symbolic text do not terminate in CrossHair)."""
    from crosshair.tracers import NoTracing, is_tracing

    if is_tracing():
        scheme, where, ci = _pick3(scheme, N_SCHEMES), _pick3(where, len(EXT_WHERE)), _pick3(ci, len(EXT_CH))
        label = True if label else False
        with NoTracing():
            return not _extlink_bad(scheme, label, where, ci)[1]
    return not _extlink_bad(scheme, label, where, ci)[1]


def replay_extlink(scheme, label, where, ci):
    doc, bad, msg = _extlink_bad(scheme, label, where, ci)
    return ("parse(" + repr(doc) + ")", bad, msg)


# ---------------------------------------------------------------- `|` preceded only by blanks on its line starts a new cell
def wsp_cell_step(open_kind: int, txt: str) -> bool:
    """An indented cell line ` | b`: the blank token has set wsp_beginning_of_line; where no preformatted block was opened for
    the blank (tables inside <p> / <ref>) the open cell is still on top when `|` arrives - it must start a new cell, not be
    taken for the attribute separator of the open one."""
    root, table, row = build(True, False, False, 0, open_kind, False, txt, False)
    ctx.wsp_beginning_of_line = True
    first = ctx.parser_stack[-1]
    table_cell_fn(ctx, "|")
    top = ctx.parser_stack[-1]
    return top is not first and top.kind == K.TABLE_CELL and len(row.children) == 2 and row.children[0] is first and first.children == [txt] and not first.attrs and not top.attrs


def replay_wsp_cell(open_kind, txt):
    w = Wtp(quiet=True, quiet_output=True)
    lead = "!" if open_kind == 2 else "|"
    for wrap in ("<p>\n%s\n</p>", "<ref>\n%s\n</ref>", "%s"):
        doc = wrap % ("{|\n|-\n " + lead + " " + txt.strip() + "\n | b\n | c\n|}")
        w.start_page("T")
        root = w.parse(doc)
        rows = []

        def walk(n):
            if isinstance(n, WikiNode):
                if n.kind == K.TABLE_ROW:
                    rows.append([(c.kind.name, dict(c.attrs)) for c in n.children if isinstance(c, WikiNode)])
                for c in n.children:
                    walk(c)

        walk(root)
        want = [[("TABLE_HEADER_CELL" if open_kind == 2 else "TABLE_CELL", {}), ("TABLE_CELL", {}), ("TABLE_CELL", {})]]
        if rows != want:
            return ("parse(" + repr(doc) + ")", True, f"rows {rows}, written: three cells without attributes")
    return ("indented cell lines", False, "")
