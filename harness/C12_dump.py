"""C12: dump ingestion kernels (CrossHair): the page filter and field pass-through of parse_dump_xml (AST slice of its
loop body, lxml element replaced by a stub), add_page's title handling (recorder stub), add_default_templates."""
import ast
import os

import wikitextprocessor.dumpparser as D
from wikitextprocessor import Wtp
from vf import slicer

_tree = slicer.parse(D.__file__)
_fn = slicer.find(_tree, ast.FunctionDef, lambda n: n.name == "parse_dump_xml")
_loop = slicer.find(_fn, ast.For, lambda n: "iterparse" in ast.unparse(n.iter))
# the real loop with everything that precedes it inside the `with` block (locals initialised before the loop are part of
# the slice, so a value carried from one page to the next is visible); only the iterator expression is replaced
_with = slicer.find(_fn, ast.With, lambda n: True)
_loop.iter = ast.Name(id="_elements", ctx=ast.Load())
_body = ast.If(test=ast.Constant(value=True), body=_with.body, orelse=[], lineno=_with.lineno, col_offset=0)
LOOP, LOOP_SRC = slicer.make_function("dump_loop", "wtp, _elements, namespace_ids", "pass", ast.fix_missing_locations(_body), "return None", dict(vars(D)), f"dumpparser.py:{_loop.lineno}")


def STEP(wtp, page_element, namespace_ids):
    return LOOP(wtp, [(None, page_element)], namespace_ids)


MODELS = ["wikitext", "Scribunto", "json", "css", "javascript", "sanitized-css", "text", "", "GadgetDefinition"]
KEPT = {"wikitext", "Scribunto", "json"}


class Redirect:
    def __init__(self, title):
        self.title = title

    def get(self, k, default=None):
        return self.title if k == "title" else default


class Element:
    """stub of the lxml page element: the four lookups parse_dump_xml performs"""

    def __init__(self, title, ns, model, text, redirect):
        self.f = {"{*}title": title, "{*}ns": str(ns), "{*}revision/{*}model": model, "{*}revision/{*}text": text}
        self.redirect = redirect
        self.cleared = 0

    def findtext(self, path, default=None):
        v = self.f.get(path)
        return default if v is None else v

    def find(self, path):
        return Redirect(self.redirect) if path == "{*}redirect" and self.redirect is not None else None

    def clear(self, keep_tail=False):
        self.cleared += 1


class Store:
    def __init__(self):
        self.added = []

    def add_page(self, title, namespace_id, body=None, redirect_to=None, need_pre_expand=False, model="wikitext"):
        self.added.append((title, namespace_id, body, redirect_to, model))


def ingest(title: str, ns: int, selected: bool, mi: int, text: str, has_redirect: bool, target: str):
    st = Store()
    el = Element(title, ns, MODELS[mi], text, target if has_redirect else None)
    STEP(st, el, {ns} if selected else {ns + 1})
    return st.added


def expected(title, ns, selected, mi, text, has_redirect, target):
    if not selected or title.endswith("/documentation") or "/testcases" in title:
        return []
    if has_redirect:
        return [(title, ns, None, target, MODELS[mi])]
    if MODELS[mi] not in KEPT:
        return []
    return [(title, ns, text, None, MODELS[mi])]


def filter_ok(title, ns, selected, mi, text, has_redirect, target) -> bool:
    return ingest(title, ns, selected, mi, text, has_redirect, target) == expected(title, ns, selected, mi, text, has_redirect, target)


def two_pages_ok(t1: str, sel1: bool, mi1: int, text1: str, red1: bool, tgt1: str, t2: str, sel2: bool, mi2: int, text2: str, red2: bool, tgt2: str) -> bool:
    """two consecutive page elements through the real loop: what is stored for the second page depends on the second page only"""
    st = Store()
    e1 = Element(t1, 0 if sel1 else 1, MODELS[mi1], text1, tgt1 if red1 else None)
    e2 = Element(t2, 0 if sel2 else 1, MODELS[mi2], text2, tgt2 if red2 else None)
    LOOP(st, [(None, e1), (None, e2)], {0})
    return st.added == expected(t1, 0 if sel1 else 1, sel1, mi1, text1, red1, tgt1) + expected(t2, 0 if sel2 else 1, sel2, mi2, text2, red2, tgt2)


def replay_two_pages(t1, sel1, mi1, text1, red1, tgt1, t2, sel2, mi2, text2, red2, tgt2):
    import tempfile

    text1, tgt1, text2, tgt2 = xml_safe(text1), xml_safe(tgt1), xml_safe(text2), xml_safe(tgt2)
    pages = [(t1, 0 if sel1 else 1, MODELS[mi1], text1, tgt1 if red1 else None), (t2, 0 if sel2 else 1, MODELS[mi2], text2, tgt2 if red2 else None)]
    with tempfile.TemporaryDirectory() as d:
        p = os.path.join(d, "t-pages-articles.xml.bz2")
        make_dump(pages, p)
        w = Wtp(quiet=True, quiet_output=True)
        D.parse_dump_xml(w, p, {0})
        got = sorted((pg.title, pg.namespace_id, pg.body, pg.redirect_to, pg.model) for pg in w.get_all_pages())
    want = sorted(expected(t1, pages[0][1], sel1, mi1, text1, red1, tgt1) + expected(t2, pages[1][1], sel2, mi2, text2, red2, tgt2))
    return (f"parse_dump_xml of a dump with two pages {pages}, namespace 0 selected", got != want, f"stored {got}, expected {want}")


def pinned(s: str, at: int, lit: str) -> bool:
    for i in range(len(lit)):
        if s[at + i] != lit[i]:
            return False
    return True


TCH = "aT:/ é"


# ---------------------------------------------------------------- add_page title handling (recorder)
ctx = Wtp(quiet=True, quiet_output=True)
REAL_CONN = ctx.db_conn


class Recorder:
    def __init__(self):
        self.calls = []

    def execute(self, q, vals=()):
        self.calls.append((q, tuple(vals)))
        return []


def written(title, ns, body, redirect_to, model):
    rec = Recorder()
    ctx.db_conn = rec
    try:
        ctx.add_page(title, ns, body, redirect_to=redirect_to, model=model)
    finally:
        ctx.db_conn = REAL_CONN
    ins = [v for q, v in rec.calls if "INSERT" in q.upper()]
    return ins[0] if len(ins) == 1 else None


PREFIXES = {0: "", 10: "Template:", 828: "Module:", 14: "Category:", 4: "Wiktionary:"}


# ---------------------------------------------------------------- replay through a real generated dump
def xml_safe(v):
    """characters XML 1.0 cannot carry are replaced by a letter in the replay document (the solver's choice of character is
    irrelevant to the page filter; the replayed pages are what the signature shows)"""
    if v is None:
        return None
    return "".join(c if (c in "\t\n" or " " <= c <= "\ud7ff" or "\ue000" <= c <= "\ufffd") else "Z" for c in v)


def make_dump(pages, path):
    import bz2
    from xml.sax.saxutils import escape

    out = ['<mediawiki xmlns="http://www.mediawiki.org/xml/export-0.10/" version="0.10" xml:lang="en">']
    for i, (title, ns, model, text, redirect) in enumerate(pages):
        out.append("<page><title>%s</title><ns>%d</ns><id>%d</id>" % (escape(title), ns, i + 1))
        if redirect is not None:
            out.append('<redirect title="%s" />' % escape(redirect, {'"': "&quot;"}))
        out.append("<revision><id>%d</id><model>%s</model><format>text/x-wiki</format><text xml:space=\"preserve\">%s</text></revision></page>" % (i + 100, escape(model), escape(text)))
    out.append("</mediawiki>")
    with bz2.open(path, "wt", encoding="utf-8") as f:
        f.write("\n".join(out))


def replay_dump(title, ns, selected, mi, text, has_redirect, target):
    import tempfile

    title, text, target = xml_safe(title), xml_safe(text), xml_safe(target)
    with tempfile.TemporaryDirectory() as d:
        p = os.path.join(d, "t-pages-articles.xml.bz2")
        make_dump([(title, ns, MODELS[mi], text, target if has_redirect else None)], p)
        w = Wtp(quiet=True, quiet_output=True)
        D.parse_dump_xml(w, p, {ns} if selected else {ns + 1})
        got = [(pg.title, pg.namespace_id, pg.body, pg.redirect_to, pg.model) for pg in w.get_all_pages()]
    want = expected(title, ns, selected, mi, text, has_redirect, target)
    # the store applies add_page's normalisations; compare presence and fields of the raw record
    bad = (len(got) != len(want)) or (want and (got[0][2] != want[0][2] and ns != 10 or got[0][3] != want[0][3] or got[0][4] != want[0][4]))
    return (f"parse_dump_xml of a dump with page title={title!r} ns={ns} model={MODELS[mi]!r} redirect={target if has_redirect else None!r}, namespace {'selected' if selected else 'not selected'}", bool(bad), f"stored {got}, expected {want}")


# ---------------------------------------------------------------- add_default_templates with a symbolic presence kind per helper
class FakeWtp:
    """answers every way the function may ask whether a page is there.  kinds: 0 absent, 1 template with text,
    2 template whose includable part is empty, 3 redirect whose target is not in the store"""

    def __init__(self, kinds):
        self.NAMESPACE_DATA = {"Template": {"id": 10, "name": "Template"}}
        self.kinds = kinds  # title -> kind
        self.added = []
        self.commits = 0
        self.db_conn = self

    def page_exists(self, title, ns_id=0):
        return self.kinds.get(title, 0) != 0

    def get_page(self, title, ns_id=None, no_redirect=False):
        k = self.kinds.get(title, 0)
        return None if k == 0 else _page(title, k)

    def get_page_resolve_redirect(self, title, ns_id=None):
        k = self.kinds.get(title, 0)
        return None if k in (0, 3) else _page(title, k)

    def get_page_body(self, title, ns_id=None):
        k = self.kinds.get(title, 0)
        return {0: None, 1: "CUSTOM", 2: "", 3: None}[k]

    def add_page(self, title, ns_id, body=None, **kw):
        self.added.append((title, ns_id, body))

    def commit(self):
        self.commits += 1


def _page(title, k):
    from wikitextprocessor.core import Page

    return Page(title=title, namespace_id=10, redirect_to="Template:Nowhere" if k == 3 else None, need_pre_expand=False, body={1: "CUSTOM", 2: "", 3: None}[k], model="wikitext")


HELPERS = {"Template:!": "|", "Template:=": "=", "Template:((": "&lbrace;&lbrace;", "Template:))": "&rbrace;&rbrace;"}


def _pickk(x, n: int) -> int:
    for v in range(n):
        if x == v:
            return v
    raise AssertionError("outside the precondition")


def defaults_ok(p0: int, p1: int, p2: int, p3: int) -> bool:
    """
    pre: 0 <= p0 < 4 and 0 <= p1 < 4 and 0 <= p2 < 4 and 0 <= p3 < 4
    post: _
    """
    titles = list(HELPERS)
    kinds = dict(zip(titles, [_pickk(p0, 4), _pickk(p1, 4), _pickk(p2, 4), _pickk(p3, 4)]))
    w = FakeWtp(kinds)
    D.add_default_templates(w)
    want = [(t, 10, HELPERS[t]) for t in titles if kinds[t] == 0]
    return sorted(w.added) == sorted(want)


def replay_defaults_ok(p0, p1, p2, p3):
    titles = list(HELPERS)
    kinds = dict(zip(titles, [p0, p1, p2, p3]))
    w = Wtp(quiet=True, quiet_output=True)
    for t in titles:
        if kinds[t] == 1:
            w.add_page(t, 10, "CUSTOM")
        elif kinds[t] == 2:
            w.add_page(t, 10, "<noinclude>documentation only</noinclude>")
        elif kinds[t] == 3:
            w.add_page(t, 10, None, redirect_to="Template:Nowhere")
    D.add_default_templates(w)
    bad = []
    for t in titles:
        pg = w.get_page(t, 10)
        want = {0: (HELPERS[t], None), 1: ("CUSTOM", None), 2: ("", None), 3: (None, "Template:Nowhere")}[kinds[t]]
        got = None if pg is None else (pg.body, pg.redirect_to)
        if got != want:
            bad.append((t, got, want))
    names = {0: "absent", 1: "template with text", 2: "template with an empty includable part", 3: "redirect to a missing page"}
    return ("add_default_templates on a store where " + ", ".join(f"{t} is {names[kinds[t]]}" for t in titles), bool(bad), f"helper templates wrong (title, (body, redirect) stored, expected): {bad}")
