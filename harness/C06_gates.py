"""C06: the Python-side gates every Lua escape through the bridge must pass (CrossHair)."""
import ast
import os
from functools import partial

import wikitextprocessor.luaexec as lx
from vf import slicer


class RecPath:
    """stands in for LUA_DIR: records what is joined onto it; nothing exists"""

    def __init__(self, parts=()):
        self.parts = tuple(parts)
        self.log = [] if not parts else None

    def __truediv__(self, other):
        p = RecPath(self.parts + (other,))
        p.log = self.log if self.log is not None else ROOT.log
        p.log.append(p.parts)
        return p

    def is_file(self):
        return False


class Ctx:
    NAMESPACE_DATA = {"Module": {"id": 828, "name": "Module"}}

    def get_page_body(self, title, ns):
        return None


ROOT = RecPath()


def probed(modname: str):
    ROOT.log = []
    saved = lx.LUA_DIR
    lx.LUA_DIR = ROOT
    try:
        lx.lua_loader(Ctx(), modname)
    finally:
        lx.LUA_DIR = saved
    return [parts[-1] for parts in ROOT.log if len(parts) == 2]  # the <path> of LUA_DIR / prefix / path


def confined(p: str) -> bool:
    """a relative path that cannot leave the directory it is joined onto"""
    if len(p) > 0 and p[0] == "/":
        return False  # pathlib: an absolute right operand discards the left one
    comp = ""
    for ch in p + "/":
        if ch == "/":
            if comp == "..":
                return False
            comp = ""
        else:
            comp += ch
    return True


def loader_ok(modname: str) -> bool:
    return all(confined(p) for p in probed(modname))


def replay_loader(modname):
    import tempfile
    from vf.wtpfix import new_ctx

    bad = [p for p in probed(modname) if not confined(p)]
    if not bad:
        return ("lua_loader(ctx, " + repr(modname) + ")", False, "")
    # end-to-end: plant a file outside the package and try to read it through the real loader
    import pathlib

    real = pathlib.Path(lx.LUA_DIR)
    hit = None
    for prefix, _ in lx.BUILTIN_LUA_SEARCH_PATHS:
        target = (real / prefix / bad[0])
        try:
            resolved = target.resolve()
        except Exception:  # noqa: BLE001
            continue
        if str(resolved).startswith(str(real.resolve()) + os.sep):
            continue
        hit = str(target)
    return ("lua_loader(ctx, " + repr(modname) + ")", hit is not None, f"the loader probes {hit!r}, which lies outside the Lua package directory")


# ---------------------------------------------------------------- attribute filter (closure sliced from initialize_lua)
_tree = slicer.parse(lx.__file__)
_init = slicer.find(_tree, ast.FunctionDef, lambda n: n.name == "initialize_lua")
_flt = slicer.find(_init, ast.FunctionDef, lambda n: n.name == "filter_attribute_access")
# the filter is re-created (together with any state of initialize_lua it closes over, e.g. a decision cache) per use
MAKE_FILTER, FILTER_SRC = slicer.closure_factory(_init, _flt, dict(vars(lx)), f"luaexec.py:{_flt.lineno}")
FILTER = MAKE_FILTER()
HELPER = partial(lambda ctx, x: x, object())


def denied(obj, name, setting, flt=None) -> bool:
    try:
        (flt or FILTER)(obj, name, setting)
    except AttributeError:
        return True
    return False


def filter_history_ok(name: str, first_setting: bool, setting: bool, first_kind: int) -> bool:
    """the decision depends on the object and the name of THIS request only: after any earlier request with the same name on
    another kind of object (a tuple, an exception, a frame closure), an attribute of a context-bound helper is still refused"""
    flt = MAKE_FILTER()
    other = [(1, 2), ValueError("x"), (lambda: 0)][first_kind]
    denied(other, name, first_setting, flt)
    return denied(HELPER, name, setting, flt)


def replay_filter_history(name, first_setting, setting, first_kind):
    from vf.wtpfix import close, new_ctx

    probe = (
        "local p = {}\n"
        "function p.f(frame)\n"
        "  local first = {frame.getTitle, select(2, pcall(error, 'x'))}\n"
        "  for _, o in ipairs(first) do pcall(function() return o." + (name if name.isidentifier() else "args") + " end) end\n"
        "  local out = {}\n"
        "  for _, n in ipairs({'args', 'func', 'keywords', '" + (name if name.isidentifier() else "args") + "'}) do\n"
        "    local ok, v = pcall(function() return mw_python_get_page_content[n] end)\n"
        "    if not ok then ok, v = pcall(function() return _python_loader[n] end) end\n"
        "    if ok and v ~= nil then out[#out + 1] = n .. '=' .. tostring(v):sub(1, 40) end\n"
        "  end\n"
        "  return #out == 0 and 'DENIED' or table.concat(out, ';')\n"
        "end\nreturn p"
    )
    w = new_ctx(modules={"vfflt": probe})
    w.start_page("T")
    try:
        got = w.expand("{{#invoke:vfflt|f}}")
    except Exception as e:  # noqa: BLE001
        got = f"EXC {type(e).__name__}: {e}"
    close(w)
    return (f"Lua module reads .{name if name.isidentifier() else 'args'} on a frame closure first, then on the Python helpers exposed to the sandbox", got != "DENIED", f"an attribute of a context-bound helper is granted after the same name was requested on another object: {got[:160]}")


def filter_ok(name: str, on_partial: bool, setting: bool, as_bytes: bool) -> bool:
    obj = HELPER if on_partial else (1, 2)
    if as_bytes:
        return denied(obj, name.encode("utf-8", "replace"), setting)  # non-str names are refused
    if on_partial or name[:1] == "_":
        return denied(obj, name, setting)
    return True  # other names may be allowed


def replay_filter(name, on_partial, setting, as_bytes):
    ok = filter_ok(name, on_partial, setting, as_bytes)
    return (f"attribute filter called with ({'<partial helper>' if on_partial else '<tuple>'}, {name!r}{' as bytes' if as_bytes else ''})", not ok, "underscore / non-str attribute or an attribute of a context-bound helper is granted to Lua")


# ---------------------------------------------------------------- Python -> Lua value conversion (mw.text.jsonDecode)
_jd = slicer.find(_tree, ast.FunctionDef, lambda n: n.name == "mw_text_jsondecode")
_rec = slicer.find(_jd, ast.FunctionDef, lambda n: n.name == "recurse")
for _a in ast.walk(_rec.args):
    if isinstance(_a, ast.arg):
        _a.annotation = None
_rec.returns = None
JSON_CONV, JSON_CONV_SRC = slicer.make_function("json_conv", "value, flags, table_from", "", _rec, "return recurse(value)", dict(vars(lx)), f"luaexec.py:{_rec.lineno}")


class LuaTableStub:
    """stands for lupa's table_from: a shallow copy into a Lua table (values are taken as they are)"""

    def __init__(self, x):
        self.items = list(x.items()) if isinstance(x, dict) else list(enumerate(x, 1))


JKEYS = ["a", "1", "2", "x y"]
JSHAPES = [
    lambda k0, k1: {k0: {k1: 1}},
    lambda k0, k1: {k0: [1, {k1: 2}]},
    lambda k0, k1: [{k0: {k1: []}}],
    lambda k0, k1: {k0: 1, k1 + "_": {"x": [1, 2]}},
    lambda k0, k1: [[{k0: 1}], {k1: [[3]]}],
    lambda k0, k1: {k0: {"n": {k1: {"deep": [{}]}}}},
]


def _raw_python(v) -> bool:
    if isinstance(v, (dict, list, tuple)):
        return True
    if isinstance(v, LuaTableStub):
        for _, x in v.items:
            if _raw_python(x):
                return True
    return False


def json_converted(flags: int, shape: int, k0: int, k1: int) -> bool:
    """every container mw.text.jsonDecode hands to Lua is a Lua table at every depth: no Python dict / list is reachable from
    the result, whatever the flags (JSON_PRESERVE_KEYS = 1, JSON_TRY_FIXING = 2) and whatever the keys look like"""
    value = JSHAPES[shape](JKEYS[k0], JKEYS[k1])
    return not _raw_python(JSON_CONV(value, flags, LuaTableStub))


JSON_PROBE = r"""
local p = {}
local function walk(v, path, out)
  local t = type(v)
  if t == "userdata" then out[#out + 1] = path .. ":" .. tostring(v):sub(1, 24) end
  if t == "table" then for k, x in pairs(v) do walk(x, path .. "." .. tostring(k), out) end end
end
function p.f(frame)
  local out = {}
  walk(mw.text.jsonDecode(JSONTEXT, tonumber(frame.args[1])), "r", out)
  return #out == 0 and "CLEAN" or table.concat(out, ";")
end
return p
"""


def replay_json_converted(flags, shape, k0, k1):
    import json

    from vf.wtpfix import close, new_ctx

    value = JSHAPES[shape](JKEYS[k0], JKEYS[k1])
    s = json.dumps(value)
    # the JSON text is embedded in the module as a Lua long string (wikitext would mangle braces and bars)
    w = new_ctx(modules={"vfjson": "local JSONTEXT = [==[" + s + "]==]\n" + JSON_PROBE})
    w.start_page("T")
    try:
        got = w.expand("{{#invoke:vfjson|f|" + str(flags) + "}}")
    except Exception as e:  # noqa: BLE001
        got = f"EXC {type(e).__name__}: {e}"
    close(w)
    return (f"Lua mw.text.jsonDecode({s!r}, {flags}) inside #invoke, result walked recursively", got != "CLEAN", f"the decoded value reaches host objects: {got[:160]}")
