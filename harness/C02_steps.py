"""C02: one-step lemmas for headings, rules, list lines and filler from an arbitrary valid parser state.

State abstraction (read off the handlers): ROOT, then open sections of strictly increasing levels, then a chain of
(LIST, LIST_ITEM) pairs whose markers are each a proper prefix of the next (not necessarily consecutive lengths).
Pre-states are built with the real _parser_push, so each is reachable (canonical document: headings then list lines).
"""
from wikitextprocessor import Wtp
from wikitextprocessor.parser import (
    KIND_TO_LEVEL,
    NodeKind,
    WikiNode,
    _parser_push,
    hline_fn,
    list_fn,
    subtitle_end_fn,
    subtitle_start_fn,
    text_fn,
)

ctx = Wtp(quiet=True, quiet_output=True)


def reset_begline(c):
    """representation invariant at a token boundary outside argument re-parsing: beginning-of-line syntax enabled"""
    c.begline_enabled = True
    try:
        c.begline_disable_counter = 0
    except AttributeError:  # the counter slot may have been refactored away
        pass

LV = {1: NodeKind.LEVEL1, 2: NodeKind.LEVEL2, 3: NodeKind.LEVEL3, 4: NodeKind.LEVEL4, 5: NodeKind.LEVEL5, 6: NodeKind.LEVEL6}
MK = "*#"


def build(mask: int, markers):
    """markers: list of list-markers, each a proper prefix of the next"""
    ctx.start_page("T")
    root = WikiNode(NodeKind.ROOT, 0)
    root.largs = [["T"]]
    ctx.parser_stack = [root]
    ctx.pre_parse = False
    ctx.linenum = 9
    ctx.suppress_special = False
    reset_begline(ctx)
    for lvl in range(1, 7):
        if mask & (1 << (lvl - 1)):
            n = _parser_push(ctx, LV[lvl])
            n.largs = [["h"]]
            n.loc = lvl  # an earlier line
            n.children.append("\nintro\n")
    for m in markers:
        n = _parser_push(ctx, NodeKind.LIST)
        n.sarg = m
        n.loc = 7
        n = _parser_push(ctx, NodeKind.LIST_ITEM)
        n.sarg = m
        n.loc = 7
        n.children.append("x\n")
    ctx.beginning_of_line = True
    ctx.wsp_beginning_of_line = False
    return root


def levels():
    return [KIND_TO_LEVEL[n.kind] for n in ctx.parser_stack if n.kind in KIND_TO_LEVEL and n.kind != NodeKind.ROOT]


def open_levels(mask):
    return [lvl for lvl in range(1, 7) if mask & (1 << (lvl - 1))]


def chain(deep: str, lens):
    return [deep[:k] for k in lens]


# ---------------------------------------------------------------- step checks (called by generated conditions)
def heading_step(mask: int, L: int, markers) -> bool:
    build(mask, markers)
    before = list(ctx.parser_stack)
    subtitle_start_fn(ctx, "<" + "=" * L)
    want = [x for x in open_levels(mask) if x < L] + [L]
    if levels() != want:
        return False
    st = ctx.parser_stack
    if any(n.kind not in KIND_TO_LEVEL for n in st):  # lists are closed, only sections stay open
        return False
    node, parent = st[-1], st[-2]
    if not (parent.children and parent.children[-1] is node and node not in before):
        return False
    # the surviving sections are the same node objects as before
    return all(a is b for a, b in zip(st[:-1], before))


def heading_end_step(mask: int, L: int) -> bool:
    build(mask, [])
    subtitle_start_fn(ctx, "<" + "=" * L)
    ctx.beginning_of_line = False
    node = ctx.parser_stack[-1]
    text_fn(ctx, "h")
    depth = len(ctx.parser_stack)
    subtitle_end_fn(ctx, ">" + "=" * L)
    return len(ctx.parser_stack) == depth and ctx.parser_stack[-1] is node and node.largs == [["h"]] and node.children == []


def hline_step(mask: int, markers) -> bool:
    build(mask, markers)
    before = list(ctx.parser_stack)
    hline_fn(ctx, "----")
    st = ctx.parser_stack
    if any(l > 2 for l in levels()):
        return False
    if any(n.kind not in KIND_TO_LEVEL for n in st):
        return False
    top = st[-1]
    ok = bool(top.children) and isinstance(top.children[-1], WikiNode) and top.children[-1].kind == NodeKind.HLINE
    # open sections of level <= 2 are kept
    keep = [n for n in before if n.kind in KIND_TO_LEVEL and KIND_TO_LEVEL[n.kind] <= 2]
    # (a level-1 section below a level-2 one stays; a lone level-1 top is closed by the code: not asserted either way)
    return ok and all(n in before for n in st) and all((n in st) for n in keep if KIND_TO_LEVEL[n.kind] != 1)


def list_step(has_section: bool, markers, tok: str) -> bool:
    build(4 if has_section else 0, markers)
    before = list(ctx.parser_stack)
    n_sec = 2 if has_section else 1
    items = before[n_sec + 1 :: 2]  # LIST_ITEM nodes of the chain
    lists = before[n_sec::2]
    list_fn(ctx, tok)
    st = ctx.parser_stack
    new = st[-1]
    if new.kind != NodeKind.LIST_ITEM or new.sarg != tok or new in before or new.children != []:
        return False
    lst = st[-2]
    if lst.kind != NodeKind.LIST or lst.sarg != tok or not (lst.children and lst.children[-1] is new):
        return False
    eq = [i for i, m in enumerate(markers) if m == tok]
    if eq:  # equal markers continue the same list
        i = eq[0]
        return lst is lists[i] and st[: n_sec + 2 * i + 1] == before[: n_sec + 2 * i + 1] and len(st) == n_sec + 2 * i + 2
    pref = [i for i, m in enumerate(markers) if len(m) < len(tok) and tok[: len(m)] == m]
    if pref:  # nested in the most recent open item whose marker is a proper prefix
        j = pref[-1]
        parent = items[j]
        return lst not in before and st[-3] is parent and parent.children[-1] is lst and st[: n_sec + 2 * j + 2] == before[: n_sec + 2 * j + 2] and len(st) == n_sec + 2 * j + 4
    # anything else starts a new list under the section
    sec = before[n_sec - 1]
    return lst not in before and st[-3] is sec and sec.children[-1] is lst and len(st) == n_sec + 2


def filler_step(has_section: bool, markers, ch: str) -> bool:
    build(4 if has_section else 0, markers)
    before = list(ctx.parser_stack)
    n_sec = 2 if has_section else 1
    text_fn(ctx, ch)
    st = ctx.parser_stack
    sec = before[n_sec - 1]
    return st == before[:n_sec] and isinstance(sec.children[-1], str) and sec.children[-1].endswith(ch)


# ---------------------------------------------------------------- replay through Wtp.parse on the canonical document
def build_pre(mask: int):
    """sections, then the PREFORMATTED node a leading-space line leaves open at the start of the next line"""
    build(mask, [])
    n = _parser_push(ctx, NodeKind.PREFORMATTED)
    n.loc = 8
    n.children.append(" pre\n")
    ctx.beginning_of_line = True
    return n


def heading_pre_step(mask: int, L: int) -> bool:
    """a heading after a leading-space block: the block is closed where it is, the heading nests by level as always"""
    pre = build_pre(mask)
    before = list(ctx.parser_stack)
    holder = before[-2]
    subtitle_start_fn(ctx, "<" + "=" * L)
    want = [x for x in open_levels(mask) if x < L] + [L]
    st = ctx.parser_stack
    if levels() != want or any(n.kind not in KIND_TO_LEVEL for n in st):
        return False
    node, parent = st[-1], st[-2]
    if not (parent.children and parent.children[-1] is node and node not in before):
        return False
    return pre in holder.children and node not in pre.children and all(a is b for a, b in zip(st[:-1], before))


def hline_pre_step(mask: int) -> bool:
    pre = build_pre(mask)
    before = list(ctx.parser_stack)
    holder = before[-2]
    hline_fn(ctx, "----")
    st = ctx.parser_stack
    if any(l > 2 for l in levels()) or any(n.kind not in KIND_TO_LEVEL for n in st):
        return False
    top = st[-1]
    ok = bool(top.children) and isinstance(top.children[-1], WikiNode) and top.children[-1].kind == NodeKind.HLINE
    return ok and pre in holder.children and all(isinstance(c, str) for c in pre.children)


def canonical_pre_doc(mask, last_line):
    return canonical_doc(mask, [], " pre\n" + last_line)


def canonical_doc(mask, markers, last_line):
    lines = []
    for lvl in open_levels(mask):
        lines.append("=" * lvl + "h" + "=" * lvl)
        lines.append("intro")
    for m in markers:
        lines.append(m + "x")
    lines.append(last_line)
    return "\n".join(lines) + "\n"


def ref_tree(doc):
    """independent reference builder for heading / list / rule / text documents: nested tuples"""
    root = ("ROOT", "", [])
    secs = [(0, root)]  # (level, node)
    lists = []  # [(marker, listnode, itemnode)]
    for line in doc.split("\n"):
        if line == "":
            continue
        st = line.lstrip("=")
        nl = len(line) - len(st)
        if nl and line.endswith("=" * nl) and len(line) > 2 * nl:
            lists = []
            while secs[-1][0] >= nl:
                secs.pop()
            node = ("LEVEL%d" % nl, "", [])
            secs[-1][1][2].append(node)
            secs.append((nl, node))
        elif line.startswith("----"):
            lists = []
            while secs[-1][0] > 2:
                secs.pop()
            if len(secs) > 1 and secs[-1][0] == 1:
                secs.pop()
            secs[-1][1][2].append(("HLINE", "", []))
        elif line[0] in "*#":
            k = 0
            while k < len(line) and line[k] in "*#":
                k += 1
            m = line[:k]
            while lists and not (lists[-1][0] == m or (len(lists[-1][0]) < len(m) and m.startswith(lists[-1][0]))):
                lists.pop()
            if lists and lists[-1][0] == m:
                item = ("ITEM", m, [])
                lists[-1][1][2].append(item)
                lists[-1] = (m, lists[-1][1], item)
            else:
                parent = lists[-1][2] if lists else secs[-1][1]
                lst = ("LIST", m, [])
                item = ("ITEM", m, [])
                lst[2].append(item)
                parent[2].append(lst)
                lists.append((m, lst, item))
        elif line[0] == " ":  # leading-space block: a PREFORMATTED node in the current section, closed by the next line
            lists = []
            kids = secs[-1][1][2]
            if not (kids and kids[-1][0] == "PREFORMATTED"):
                kids.append(("PREFORMATTED", "", [("TEXT", "", [])]))
        else:
            lists = []
            secs[-1][1][2].append(("TEXT", "", []))
    return root


def shape(node):
    """parse tree -> nested tuples of the same form (text collapsed to TEXT markers, adjacent ones merged)"""
    from wikitextprocessor.parser import WikiNode as W

    if node.kind == NodeKind.ROOT:
        name, sarg = "ROOT", ""
    elif node.kind in KIND_TO_LEVEL:
        name, sarg = "LEVEL%d" % KIND_TO_LEVEL[node.kind], ""
    elif node.kind == NodeKind.LIST:
        name, sarg = "LIST", node.sarg
    elif node.kind == NodeKind.LIST_ITEM:
        name, sarg = "ITEM", node.sarg
    elif node.kind == NodeKind.HLINE:
        name, sarg = "HLINE", ""
    else:
        name, sarg = node.kind.name, ""
    kids = []
    for c in node.children:
        if isinstance(c, W):
            kids.append(shape(c))
        elif c.strip() and name not in ("ITEM",):
            if not (kids and kids[-1][0] == "TEXT"):
                kids.append(("TEXT", "", []))
    return (name, sarg, kids)


def replay_doc(doc):
    c = Wtp(quiet=True, quiet_output=True)
    c.start_page("T")
    got = shape(c.parse(doc))
    want = ref_tree(doc)
    return ("parse(" + repr(doc) + ")", got != want, f"section/list structure {got} differs from the nesting model {want}")


# ---------------------------------------------------------------- line-start syntax inside re-parsed argument lists
def begline_nesting(o0: bool, o1: bool, o2: bool, o3: bool, o4: bool, o5: bool) -> bool:
    """Lists and headings are line-start syntax; while the arguments of a template / link are re-parsed (magic_fn, inside
    `with ctx.begline_disabled:`) a line start must not be interpreted, however the re-parses nest: for every well-nested
    sequence of enters/exits the switch is on exactly when no block is open."""
    reset_begline(ctx)
    mgr = ctx.begline_disabled
    depth = 0
    for enter in (o0, o1, o2, o3, o4, o5):
        if enter:
            mgr.__enter__()
            depth += 1
        elif depth > 0:
            mgr.__exit__(None, None, None)
            depth -= 1
        if ctx.begline_enabled != (depth == 0):
            return False
    return True


NEST_DOCS = [
    ("* a {{q|{{l|en|x}}\nmore}}\n* b", ("ROOT", [("LIST", [("LIST_ITEM", [("TEMPLATE", [])]), ("LIST_ITEM", [])])])),
    ("==h==\n* a {{q|[[x]]\ny}}\n===k===\nt", ("ROOT", [("LEVEL2", [("LIST", [("LIST_ITEM", [("TEMPLATE", [])])]), ("LEVEL3", [])])])),
    ("# a [[x|{{u|v}}\n# z]]\n# b", ("ROOT", [("LIST", [("LIST_ITEM", [("LINK", [])]), ("LIST_ITEM", [])])])),
]


def _kinds(n):
    return (n.kind.name, [_kinds(c) for c in n.children if isinstance(c, WikiNode)])


def replay_begline_nesting(o0, o1, o2, o3, o4, o5):
    w = Wtp(quiet=True, quiet_output=True)
    w.start_page("T")
    for doc, want in NEST_DOCS:
        got = _kinds(w.parse(doc))
        if got != want:
            return ("parse(" + repr(doc) + ")", True, f"section/list structure {got} (a line start inside the arguments of a construct was interpreted after a nested construct ended); expected {want}")
    return ("parse(" + repr(NEST_DOCS[0][0]) + ")", False, "")


# ---------------------------------------------------------------- a heading-end token without a heading start on its line
def stray_heading_end_step(mask: int, L: int, in_template: bool) -> bool:
    """`==` (any level) arriving where no heading was opened ON THIS LINE - inline text such as `{{t|== x ==}}` or `a == b` in
    a section that started on an earlier line - is text: no section is closed, nothing moves into a heading argument, the
    token lands in the open node."""
    build(mask, [])
    ctx.beginning_of_line = False
    top = ctx.parser_stack[-1]
    if in_template:
        top = _parser_push(ctx, NodeKind.TEMPLATE)
        top.largs = [["t"], []]
    before = list(ctx.parser_stack)
    largs_before = [list(map(list, n.largs)) for n in before]
    text_fn(ctx, "x ")
    subtitle_end_fn(ctx, ">" + "=" * L)
    st = ctx.parser_stack
    if len(st) != len(before) or any(a is not b for a, b in zip(st, before)):
        return False
    if in_template:
        # inside a template the text goes to the current argument
        return [list(map(list, n.largs)) for n in before[:-1]] == largs_before[:-1] and "".join(x for x in top.children if isinstance(x, str)).endswith("=" * L)
    return [list(map(list, n.largs)) for n in before] == largs_before and "".join(x for x in top.children if isinstance(x, str)).endswith("=" * L)


def replay_stray_heading_end(mask, L, in_template):
    inner = ("{{t|" if in_template else "") + "=" * L + " x " + "=" * L + ("}}" if in_template else "")
    doc = canonical_doc(mask, [], "intro " + inner) + "after\n"
    w = Wtp(quiet=True, quiet_output=True)
    w.start_page("T")
    got = shape(w.parse(doc))
    # reference: the same document with the pseudo-heading replaced by plain words has the same section structure
    w.start_page("T")
    plain = shape(w.parse(canonical_doc(mask, [], "intro " + ("{{t|" if in_template else "") + "QQ x QQ" + ("}}" if in_template else "")) + "after\n"))
    return ("parse(" + repr(doc) + ")", got != plain, f"section structure {got}; with plain words in place of the inline '{'=' * L} x {'=' * L}' it is {plain}")


# ---------------------------------------------------------------- parser flags left behind by an earlier parse() call
CARRY2_DOC = "== A ==\nintro\n=== B ===\n* one\n** two\n# three\n----\ntext\n== C ==\n*# x\n"
_fresh2 = Wtp(quiet=True, quiet_output=True)
_fresh2.start_page("T")
CARRY2_WANT = shape(_fresh2.parse(CARRY2_DOC))


def carry_over2(pre_parse: bool, bol: bool, wsp: bool, supp: bool) -> bool:
    """whatever per-parse flags an earlier parse() on the same context left behind (an unclosed <pre>, a line that ended in
    the middle of a construct ...), parse() of a heading / list / rule document gives the structure a fresh context gives"""
    ctx.start_page("T")
    ctx.pre_parse = pre_parse
    ctx.beginning_of_line = bol
    ctx.wsp_beginning_of_line = wsp
    ctx.suppress_special = supp
    reset_begline(ctx)
    return shape(ctx.parse(CARRY2_DOC)) == CARRY2_WANT


def replay_carry_over2(pre_parse, bol, wsp, supp):
    w = Wtp(quiet=True, quiet_output=True)
    for first in ("<pre>unclosed", "x\n {{t|", "[[a|", "''i", "<nowiki>", "* a\n <pre>\n== h"):
        w.start_page("T")
        w.parse(first)
        w.start_page("T")
        got = shape(w.parse(CARRY2_DOC))
        if got != CARRY2_WANT:
            return (f"one context: parse({first!r}); start_page; parse({CARRY2_DOC!r})", True, f"the heading / list document parses differently after the first call: {str(got)[:200]}")
    return ("parse histories", False, "")
