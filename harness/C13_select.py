"""C13: selective expansion kernels (CrossHair) - selection rule, re-emission, parser-function switches."""
import ast
import os
import re

import wikitextprocessor.core as core
from wikitextprocessor import Wtp
from wikitextprocessor.core import Page
from vf import slicer

ctx = Wtp(quiet=True, quiet_output=True)
_REAL_GET = Wtp.get_page
NAME = "keep"


def need_expand(page_exists: bool, npe: bool, e_none: bool, in_e: bool, ne_none: bool, in_ne: bool) -> bool:
    """the real check_template_need_expand with the page lookup stubbed by (page_exists, need_pre_expand)"""
    page = Page(title="Template:" + NAME, namespace_id=10, redirect_to=None, need_pre_expand=npe, body="B", model="wikitext") if page_exists else None
    Wtp.get_page = lambda self, title, namespace_id=None, no_redirect=False: page
    try:
        e = None if e_none else ({NAME, "x"} if in_e else {"x"})
        ne = None if ne_none else ({NAME, "y"} if in_ne else {"y"})
        return ctx.check_template_need_expand(NAME, e, ne)
    finally:
        Wtp.get_page = _REAL_GET


def rule(page_exists, npe, e_none, in_e, ne_none, in_ne) -> bool:
    """documented rule: an existing template is expanded iff it is not excluded and (it is selected or flagged)"""
    selected = (not e_none) and in_e
    excluded = (not ne_none) and in_ne
    return page_exists and not excluded and (selected or npe)


def selection_rule(page_exists: bool, npe: bool, e_none: bool, in_e: bool, ne_none: bool, in_ne: bool) -> bool:
    """
    post: _
    """
    return need_expand(page_exists, npe, e_none, in_e, ne_none, in_ne) == rule(page_exists, npe, e_none, in_e, ne_none, in_ne)


def replay_selection_rule(page_exists, npe, e_none, in_e, ne_none, in_ne):
    w = Wtp(quiet=True, quiet_output=True)
    if page_exists:
        w.add_page("Template:keep", 10, "KEEP({{{1}}})", need_pre_expand=npe)
    w.start_page("T")
    calls = []
    kw = {}
    if not e_none:
        kw["templates_to_expand"] = {"keep", "x"} if in_e else {"x"}
    if not ne_none:
        kw["templates_to_not_expand"] = {"keep", "y"} if in_ne else {"y"}
    out = w.expand("{{keep|a}}", pre_expand=True, template_fn=lambda n, a: calls.append(n), **kw)
    want_expanded = rule(page_exists, npe, e_none, in_e, ne_none, in_ne)
    got_expanded = out != "{{keep|a}}"
    sig = f"expand('{{{{keep|a}}}}', pre_expand=True, {', '.join(k + '=' + repr(sorted(v)) for k, v in kw.items())}) with Template:keep {'need_pre_expand=' + str(npe) if page_exists else 'absent'}"
    return (sig, got_expanded != want_expanded or (bool(calls) != want_expanded), f"result {out!r}, template_fn calls {calls}; the selection {'selects' if want_expanded else 'does not select'} the template")


# ---------------------------------------------------------------- parser-function switches (AST slice of expand_parserfn)
_tree = slicer.parse(core.__file__)
_pf = slicer.find(_tree, ast.FunctionDef, lambda n: n.name == "expand_parserfn")


class _Self:
    def __init__(self):
        self.expand_stack = []
        self.parser_function_aliases = {}


def parserfn_slice(expand_parserfns: bool, expand_invoke: bool):
    g = {
        **vars(core),
        "self": _Self(),
        "expand_parserfns": expand_parserfns,
        "expand_invoke": expand_invoke,
        "expand_recurse": lambda a, p, e: a,
        "parent": None,
        "invoke_fn": lambda args, expander, parent: "<INVOKED>",
        "call_parser_function": lambda s, fn, args, expander: "<CALLED " + fn + ">",
        "Sequence": None,
    }
    fn, src = slicer.closure(_pf, g, f"core.py:{_pf.lineno}")
    return fn, g["self"]


PF_OFF, _s1 = parserfn_slice(False, True)
INV_OFF, _s2 = parserfn_slice(True, False)
NAMES = ["#if", "lc", "#invoke", "PAGENAME"]


def unexpanded_parserfn(a0: str, a1: str, n: int, which: int) -> bool:
    """
    pre: 0 <= n <= 2 and 0 <= which < 4 and len(a0) <= 2 and len(a1) <= 2
    post: _
    """
    name = NAMES[which]
    args = [a0, a1][:n]
    want = "{{" + name + "}}" if n == 0 else "{{" + name + ":" + "|".join(args) + "}}"
    return PF_OFF(name, args) == want and _s1.expand_stack == []


def unexpanded_invoke(a0: str, a1: str, n: int) -> bool:
    """
    pre: 1 <= n <= 2 and len(a0) <= 2 and len(a1) <= 2
    post: _
    """
    args = [a0, a1][:n]
    return INV_OFF("#invoke", args) == "{{#invoke:" + "|".join(args) + "}}" and _s2.expand_stack == []


def replay_unexpanded_parserfn(a0, a1, n, which):
    w = Wtp(quiet=True, quiet_output=True)
    w.start_page("T")
    name = NAMES[which]
    args = [a0, a1][:n]
    doc = "{{" + name + ("" if n == 0 else ":" + "|".join(args)) + "}}"
    out = w.expand(doc, expand_parserfns=False)
    return (f"expand({doc!r}, expand_parserfns=False)", out != doc or w.expand_stack != ["T"], f"result {out!r}, expansion path {w.expand_stack}")


def replay_unexpanded_invoke(a0, a1, n):
    w = Wtp(quiet=True, quiet_output=True)
    w.start_page("T")
    doc = "{{#invoke:" + "|".join([a0, a1][:n]) + "}}"
    out = w.expand(doc, expand_invoke=False)
    return (f"expand({doc!r}, expand_invoke=False)", out != doc or w.expand_stack != ["T"], f"result {out!r}, expansion path {w.expand_stack}")




# ---------------------------------------------------------------- the selection is per call, not per page
_HIST = Wtp(quiet=True, quiet_output=True)
_HIST.add_page("Template:keep", 10, "KEEP({{{1}}})")
_HIST.add_page("Template:other", 10, "OTHER")
_HIST.db_conn.commit()
DOC = "{{keep|a}} {{other}}"


def _sel(in_e: bool, e_none: bool, in_ne: bool, ne_none: bool):
    kw = {"pre_expand": True}
    if not e_none:
        kw["templates_to_expand"] = {"keep", "x"} if in_e else {"x"}
    if not ne_none:
        kw["templates_to_not_expand"] = {"keep", "y"} if in_ne else {"y"}
    return kw


def second_call_ok(e1: bool, n1: bool, ne1: bool, nn1: bool, e2: bool, n2: bool, ne2: bool, nn2: bool, restart: bool) -> bool:
    """two expand() calls on ONE page with independent selections: the second result equals what a context that never made
    the first call returns"""
    _HIST.start_page("T")
    _HIST.expand(DOC, **_sel(e1, n1, ne1, nn1))
    if restart:
        _HIST.start_page("T")
    got = _HIST.expand(DOC, **_sel(e2, n2, ne2, nn2))
    want_keep = rule(True, False, n2, e2, nn2, ne2)
    want = ("KEEP(a)" if want_keep else "{{keep|a}}") + " {{other}}"
    return got == want


def replay_second_call(e1, n1, ne1, nn1, e2, n2, ne2, nn2, restart):
    w = Wtp(quiet=True, quiet_output=True)
    w.add_page("Template:keep", 10, "KEEP({{{1}}})")
    w.add_page("Template:other", 10, "OTHER")
    w.start_page("T")
    k1, k2 = _sel(e1, n1, ne1, nn1), _sel(e2, n2, ne2, nn2)
    w.expand(DOC, **k1)
    if restart:
        w.start_page("T")
    got = w.expand(DOC, **k2)
    f = Wtp(quiet=True, quiet_output=True)
    f.add_page("Template:keep", 10, "KEEP({{{1}}})")
    f.add_page("Template:other", 10, "OTHER")
    f.start_page("T")
    want = f.expand(DOC, **k2)
    fmt = lambda k: ", ".join(f"{a}={sorted(b) if isinstance(b, set) else b}" for a, b in k.items())  # noqa: E731
    return (f"one page: expand({DOC!r}, {fmt(k1)}); {'start_page; ' if restart else ''}expand({DOC!r}, {fmt(k2)})", got != want, f"second call returns {got!r}, a context without the first call returns {want!r}")
