"""C15: nowiki content and comments are inert and recoverable (kernels, CrossHair)."""
import os

from wikitextprocessor import Wtp
from wikitextprocessor.common import MAGIC_FIRST, _nowiki_map, nowiki_quote

ctx = Wtp(quiet=True, quiet_output=True)


def reset_begline(c):
    """representation invariant at a token boundary outside argument re-parsing: beginning-of-line syntax enabled"""
    c.begline_enabled = True
    try:
        c.begline_disable_counter = 0
    except AttributeError:  # the counter slot may have been refactored away
        pass

MARKUP = "=<>*#:!|[]{}\"'_"  # the 15 documented markup characters
ALPHA = MARKUP + "a\n;"
_T = os.environ.get("VERIF_TIER", "quick")
LQ = 3 if _T == "quick" else 5
INV = {v: k for k, v in _nowiki_map.items()}


class AssocList:
    """stand-in for the dict rev_ht: same mapping semantics, equality instead of hashing
    (hashing a tuple that contains a symbolic string would realise it)"""

    def __init__(self):
        self.items = []

    def __contains__(self, k):
        return any(k == kk for kk, _ in self.items)

    def __getitem__(self, k):
        for kk, v in self.items:
            if kk == k:
                return v
        raise KeyError(k)

    def __setitem__(self, k, v):
        self.items.append((k, v))


def decode(t: str) -> str:
    """reference decoder: replace each documented entity by its character, left to right"""
    out = []
    i = 0
    while i < len(t):
        if t[i] == "&":
            j = t.find(";", i)
            if j > 0 and t[i : j + 1] in INV:
                out.append(INV[t[i : j + 1]])
                i = j + 1
                continue
        out.append(t[i])
        i += 1
    return "".join(out)


def no_markup_outside_entities(q: str) -> bool:
    i = 0
    while i < len(q):
        if q[i] == "&":
            j = q.find(";", i)
            if j > 0 and q[i : j + 1] in INV:
                i = j + 1
                continue
        if q[i] in MARKUP:
            return False
        i += 1
    return True


def quote_ok(c: str) -> bool:
    q = nowiki_quote(c)
    return no_markup_outside_entities(q) and decode(q) == c


def _fresh_page():
    ctx.start_page("T")
    ctx.rev_ht = AssocList()


NW_OPEN, NW_CLOSE = "<nowiki>", "</nowiki>"


def pinned(doc: str, at: int, lit: str) -> bool:
    """doc[at:at+len(lit)] == lit, character by character (cheap for CrossHair on a fixed-length string)"""
    for i in range(len(lit)):
        if doc[at + i] != lit[i]:
            return False
    return True


def one_cookie(doc: str, L: int) -> bool:
    c = doc[8 : 8 + L]
    _fresh_page()
    out = ctx.preprocess_text(doc)
    if out != chr(MAGIC_FIRST):  # (ord() of CrossHair's symbolic slice raises an internal error)
        return False
    if len(ctx.cookies) != 1:
        return False
    kind, args, nowiki = ctx.cookies[0]
    if not (kind == "N" and len(args) == 1 and args[0] == c and nowiki is True):
        return False
    fin = ctx._finalize_expand(out)
    return fin == ("<nowiki/>" if L == 0 else nowiki_quote(c))


def in_context(doc: str, L: int) -> bool:
    """doc = p + <nowiki> + c + </nowiki> + q  with one context character on each side"""
    c = doc[9 : 9 + L]
    _fresh_page()
    out = ctx.preprocess_text(doc)
    return len(ctx.cookies) == 1 and ctx.cookies[0][1][0] == c and out == doc[0] + chr(MAGIC_FIRST) + doc[len(doc) - 1]


CM = "a\n<-!>"


def comment_gone(doc: str, la: int, lx: int, lb: int) -> bool:
    """doc = a + <!-- + x + --> + b"""
    a, b = doc[:la], doc[la + 4 + lx + 3 :]
    _fresh_page()
    got = ctx.preprocess_text(doc)
    a2 = a[:-1] if la > 0 and a[la - 1] == "\n" else a
    rest = a2 + b
    if "<!--" in rest:
        return True  # the remaining text contains a comment opener of its own: outside the lemma
    _fresh_page()
    return got == ctx.preprocess_text(rest)


def magic_n_step(c: str, bol: bool, in_section: bool) -> bool:
    """parse side: the handler for an N cookie only adds the quoted text to the open node - whatever the
    beginning-of-line state and whatever c starts with (space, list or heading markers are inert)"""
    from wikitextprocessor.parser import NodeKind, WikiNode, _parser_push, magic_fn

    ctx.start_page("T")
    root = WikiNode(NodeKind.ROOT, 0)
    ctx.parser_stack = [root]
    ctx.pre_parse = False
    ctx.linenum = 3
    ctx.suppress_special = False
    reset_begline(ctx)
    if in_section:
        n = _parser_push(ctx, NodeKind.LEVEL2)
        n.largs = [["h"]]
    top = ctx.parser_stack[-1]
    top.children.append("x\n")
    ctx.cookies = [("N", (c,), True)]
    ctx.beginning_of_line = bol
    ctx.wsp_beginning_of_line = False
    before = list(ctx.parser_stack)
    magic_fn(ctx, chr(MAGIC_FIRST))
    if ctx.parser_stack != before:
        return False
    kids = top.children
    if not all(isinstance(k, str) for k in kids):
        return False
    return "".join(kids) == "x\n" + nowiki_quote(c)


def replay_magic_n(c, bol, in_section):
    w = Wtp(quiet=True, quiet_output=True)
    w.start_page("T")
    doc = ("==h==\n" if in_section else "") + "x" + ("\n" if bol else "") + "<nowiki>" + c + "</nowiki>"
    root = w.parse(doc)
    top = root
    from wikitextprocessor.parser import WikiNode

    if in_section:
        top = [k for k in root.children if isinstance(k, WikiNode)][0]
    bad = not all(isinstance(k, str) for k in top.children) or not "".join(top.children).endswith(nowiki_quote(c))
    return ("parse(" + repr(doc) + ")", bad, f"nowiki content is interpreted: children {top.children!r}")


# ---------------------------------------------------------------- replays through the public API
def _api_nowiki(c):
    w = Wtp(quiet=True, quiet_output=True)
    w.start_page("T")
    doc = "<nowiki>" + c + "</nowiki>"
    e = w.expand(doc)
    want = "<nowiki/>" if c == "" else "".join(_nowiki_map.get(ch, ch) for ch in c)
    bad_e = e != want or decode(e) != c and c != ""
    w.start_page("T")
    root = w.parse(doc)
    kids = root.children
    txt = "".join(k for k in kids if isinstance(k, str))
    bad_p = not all(isinstance(k, str) for k in kids) or len(kids) > 1 or (c.strip() != "" and decode(txt) != c)
    return ("expand/parse(" + repr(doc) + ")", bad_e or bad_p, f"expand gives {e!r} (expected {want!r}); parse gives children {kids!r}")


def replay_quote_inert(c):
    return _api_nowiki(c)


def replay_nowiki_in_context(c, pre, post):
    w = Wtp(quiet=True, quiet_output=True)
    w.start_page("T")
    doc = pre + "<nowiki>" + c + "</nowiki>" + post
    e = w.expand(doc)
    want = pre + ("<nowiki/>" if c == "" else "".join(_nowiki_map.get(ch, ch) for ch in c)) + post
    return ("expand(" + repr(doc) + ")", e != want, f"expand gives {e!r}, expected {want!r}")


def replay_comment_removed(a, x, b):
    w = Wtp(quiet=True, quiet_output=True)
    w.start_page("T")
    d1 = a + "<!--" + x + "-->" + b
    a2 = a[:-1] if a.endswith("\n") else a
    d2 = a2 + b
    e1 = w.expand(d1)
    w.start_page("T")
    e2 = w.expand(d2)
    return ("expand(" + repr(d1) + ") vs expand(" + repr(d2) + ")", e1 != e2 and "<!--" not in d2, f"with the comment: {e1!r}; with the comment deleted: {e2!r}")


# ---------------------------------------------------------------- finalisation reaches a fixed point through nested unexpanded constructs
def finalize_depth(c: str, depth: int) -> bool:
    """cookie 0 is the nowiki body; cookie i (1..depth) is an unexpanded, nowiki-escaped construct (argument reference,
    template, link, external link in turn) whose only argument is cookie i-1.  Finalising cookie `depth` must leave no
    placeholder character and must contain the quoted body."""
    ctx.start_page("T")
    kinds = ["A", "T", "L", "E"]
    cookies = [("N", (c,), True)]
    for i in range(1, depth + 1):
        cookies.append((kinds[(i - 1) % 4], (chr(MAGIC_FIRST + i - 1),), True))
    ctx.cookies = cookies
    out = ctx._finalize_expand("x" + chr(MAGIC_FIRST + depth) + "y")
    for i in range(depth + 1):
        if chr(MAGIC_FIRST + i) in out:
            return False
    return (nowiki_quote(c) if c != "" else "<nowiki/>") in out


def replay_finalize_depth(c, depth):
    w = Wtp(quiet=True, quiet_output=True)
    w.start_page("T")
    inner = "<nowiki>" + c + "</nowiki>"
    wraps = ["{{{<nowiki/>1|%s}}}", "{{<nowiki/>t|%s}}", "[[<nowiki/>x|%s]]", "{{<nowiki/>u|%s}}"]
    doc = inner
    for i in range(depth):
        doc = wraps[i % 4] % doc
    out = w.expand(doc)
    bad = any(ord(ch) >= 0x100000 for ch in out) or ("".join(_nowiki_map.get(ch, ch) for ch in c) not in out and c != "")
    return ("expand(" + repr(doc) + ")", bad, f"result {out!r}: placeholder character left / nowiki body not recoverable")


# ---------------------------------------------------------------- parse side, end to end
def parse_text_only(doc: str, L: int) -> bool:
    """parse('<nowiki>c</nowiki>') yields text only, and that text is the quoted c (quoted exactly once: it decodes back to c)"""
    c = doc[8 : 8 + L]
    _fresh_page()
    root = ctx.parse(doc)
    kids = root.children
    if not all(isinstance(k, str) for k in kids):
        return False
    return "".join(kids) == "".join(_nowiki_map.get(ch, ch) for ch in c)


def replay_parse_text_only(doc, L):
    return _api_nowiki(doc[8 : 8 + L])
