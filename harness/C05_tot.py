"""C05 Ob1: every parser function is total on its arguments (CrossHair; conditions appended by props/C05.py)."""
import wikitextprocessor.parserfns as P
from wikitextprocessor import Wtp

ctx = Wtp(quiet=True, quiet_output=True)
ctx.start_page("T")
_real_get_page = Wtp.get_page


def _absent(self, title, namespace_id=None, no_redirect=False):
    """stub: the page store answers 'absent' (SQLite + lru_cache realise symbolic titles and produce
    CrossHair artefacts); replays use the real store"""
    return None


def _stub_db(on: bool) -> None:
    Wtp.get_page = _absent if on else _real_get_page


_stub_db(True)


def ident(x):
    return x


def _reset():
    ctx.title = "T"
    ctx.errors, ctx.warnings, ctx.debugs, ctx.notes, ctx.wiki_notices = [], [], [], [], []
    ctx.expand_stack = ["T"]


def call(name: str, args: list) -> bool:
    _reset()
    r = P.call_parser_function(ctx, name, args, ident)
    return isinstance(r, str)


def callx(name: str, args: list, outs: list) -> bool:
    """arbitrary expander: the i-th expansion returns outs[i] (fresh symbolic strings), whatever the argument"""
    _reset()
    it = iter(outs)

    def expander(x):
        try:
            return next(it)
        except StopIteration:
            return x

    r = P.call_parser_function(ctx, name, args, expander)
    return isinstance(r, str)


def _replay_args(name, args):
    _stub_db(False)
    try:
        return _replay_args2(name, args)
    finally:
        _stub_db(True)


def _replay_args2(name, args):
    doc = "{{" + name + (":" + "|".join(args) if args else "") + "}}"
    c = Wtp(quiet=True, quiet_output=True)
    c.start_page("T")
    try:
        r = c.expand(doc)
        ok = isinstance(r, str)
        why = "" if ok else f"returns {type(r).__name__}"
    except Exception as e:  # noqa: BLE001
        return ("expand(" + repr(doc) + ")", True, f"expand() raises {type(e).__name__}: {e}")
    c = Wtp(quiet=True, quiet_output=True)
    c.start_page("T")
    try:
        r = P.call_parser_function(c, name, list(args), ident)
        if isinstance(r, str):
            return ("call_parser_function(" + repr(name) + ", " + repr(list(args)) + ")", False, "")
        return ("call_parser_function(" + repr(name) + ", " + repr(list(args)) + ")", True, f"parser function returns {type(r).__name__}, not str")
    except Exception as e:  # noqa: BLE001
        return ("call_parser_function(" + repr(name) + ", " + repr(list(args)) + ")", True, f"parser function raises {type(e).__name__}: {e} (arguments reach it e.g. through template parameters or {{{{!}}}})")


def _replay_x(name, args, outs):
    """arbitrary-expander counterexample: realise the expander results through template parameters"""
    _stub_db(False)
    c = Wtp(quiet=True, quiet_output=True)
    c.start_page("T")
    it = iter(outs)

    def expander(x):
        try:
            return next(it)
        except StopIteration:
            return x

    try:
        r = P.call_parser_function(c, name, list(args), expander)
        return ("call_parser_function(" + repr(name) + ", " + repr(list(args)) + ") with argument expansions " + repr(list(outs)), not isinstance(r, str), "non-str result")
    except Exception as e:  # noqa: BLE001
        return ("call_parser_function(" + repr(name) + ", " + repr(list(args)) + ") with argument expansions " + repr(list(outs)), True, f"parser function raises {type(e).__name__}: {e}")
