"""C14: three views of a template call's arguments, sliced from the current source.

V1 TemplateNode.template_parameters (real property)
V2 the expander's argument loop in Wtp.expand (AST slice of core.py, expand_recurse := identity)
V3 the list branch of make_frame (AST slice of luaexec.py) followed by the Lua accessor rule
   `if is_named then v = v:match "^%s*(.-)%s*$"` (re-read from _sandbox_phase2.lua; %s modelled as
   the C-locale isspace set " \\t\\n\\v\\f\\r" - the only modelled, not executed, step).
"""
import ast
import os
import re
from typing import Union

import wikitextprocessor.core as core
import wikitextprocessor.luaexec as lx
from wikitextprocessor.parser import TemplateNode
from vf import slicer

_ct = slicer.parse(core.__file__)
_for2 = slicer.find(_ct, ast.For, lambda n: ast.unparse(n.iter).replace(" ", "").startswith("map(str,args[1:])"))
# the accumulators are initialised by the statements the source itself has before the loop (names may be refactored)
_n2, _acc2 = slicer.loop_with_init(_ct, _for2)
V2, SRC_V2 = slicer.make_function("v2", "self, args, parent, expand_recurse", "", _n2, f"return {_acc2}", {**vars(core), "re": re, "Union": Union}, f"core.py:{_for2.lineno}")

_lt = slicer.parse(lx.__file__)
_for3 = slicer.find(_lt, ast.For, lambda n: ast.unparse(n.iter) == "args" and ".match(" in ast.unparse(n) and any(isinstance(s, ast.Assign) and isinstance(s.targets[0], ast.Subscript) for s in ast.walk(n)))
_n3, _acc3 = slicer.loop_with_init(_lt, _for3)
V3, SRC_V3 = slicer.make_function("v3", "ctx, args", "", _n3, f"return {_acc3}", {**vars(lx), "re": re}, f"luaexec.py:{_for3.lineno}")

_lua = open(os.path.join(os.path.dirname(lx.__file__), "lua", "_sandbox_phase2.lua")).read()
_m = re.search(r'if is_named then\s*v = v:match\s*"([^"]*)"', _lua)
LUA_TRIM_PATTERN = _m.group(1) if _m else None
LUA_WS = " \t\n\v\f\r"


class _Self:
    def __init__(self):
        self.expand_stack = []
        self.warnings = []

    def warning(self, *a, **k):
        self.warnings.append(a)


def view1(args):
    n = TemplateNode(1, ())
    n.largs = [["t"]] + [[a] if a != "" else [] for a in args]
    return dict(n.template_parameters)


def view2(args):
    return V2(_Self(), ("t",) + tuple(args), None, lambda x, p, e: x)


def view3(args):
    if LUA_TRIM_PATTERN != "^%s*(.-)%s*$":
        raise RuntimeError("Lua accessor trim rule changed: " + repr(LUA_TRIM_PATTERN))
    out = {}
    for k, (v, named) in V3(_Self(), list(args)).items():
        out[k] = v.strip(LUA_WS) if named else v
    return out


PLAIN = "ab1 \n="
_T = os.environ.get("VERIF_TIER", "quick")
BOUND1 = 5 if _T == "quick" else 6
BOUND2 = 3 if _T == "quick" else 4
BOUND3 = 2 if _T == "quick" else 3


def _ok_arg(arg: str) -> bool:
    """The property's quantifier for one argument: plain alphabet, at most one '=', non-empty name,
    non-blank value; blanks around and leading/inner newlines allowed, no trailing newline on a positional value."""
    if not all(c in PLAIN for c in arg) or arg.count("=") > 1:
        return False
    if "=" in arg:
        k, v = arg.split("=")
        return k.strip() != "" and v.strip() != ""
    return arg.strip() != "" and not arg.endswith("\n")


def _agree(args) -> bool:
    # dict equality already distinguishes the key 1 from the key "1" (key *types* are part of the claim);
    # no repr()/sorted() here: repr of a symbolic string makes CrossHair's path tree non-exhaustible (measured)
    a, b, c = view1(args), view2(args), view3(args)
    return a == b and b == c


def _names(args):
    """argument names as MediaWiki assigns them (positional numbering independent of named ones)"""
    out = []
    n = 0
    for a in args:
        if "=" in a:
            k = a.split("=")[0].strip()
            out.append(int(k) if k.isdigit() and int(k) > 0 else k)
        else:
            n += 1
            out.append(n)
    return out


# ---------------------------------------------------------------- public-API replay
ECHO = """local p = {}
function p.echo(frame)
  local keys = {}
  for k, v in pairs(frame.args) do table.insert(keys, k) end
  table.sort(keys, function(a, b) return tostring(a) < tostring(b) end)
  local out = {}
  for _, k in ipairs(keys) do
    table.insert(out, type(k) .. ":" .. tostring(k) .. "=" .. frame.args[k])
  end
  return table.concat(out, "\\1")
end
return p"""


def api_views(args):
    """The three views through the public API: parse(), expand() with template_fn, #invoke of an echo module."""
    from vf.wtpfix import new_ctx

    ctx = new_ctx(templates={"t": "x"}, modules={"echo": ECHO})
    ctx.start_page("T")
    call = "{{t|" + "|".join(args) + "}}"
    root = ctx.parse(call)
    from wikitextprocessor.parser import TemplateNode as TN

    nodes = [n for n in root.children if isinstance(n, TN)]
    p1 = dict(nodes[0].template_parameters) if nodes else None
    seen = {}

    def tfn(name, ht):
        if name == "t":
            seen.update(ht)
        return None

    ctx.start_page("T")
    ctx.expand(call, template_fn=tfn)
    ctx.start_page("T")
    r = ctx.expand("{{#invoke:echo|echo|" + "|".join(args) + "}}")
    p3 = {}
    if r:
        for item in r.split("\x01"):
            ty, rest = item.split(":", 1)
            k, v = rest.split("=", 1)
            p3[int(k) if ty == "number" else k] = v
    return p1, seen, p3


def _replay(args):
    p1, p2, p3 = api_views(args)
    bad = not (p1 == p2 == p3)
    return ("template call arguments " + repr(list(args)), bad, f"the three argument views disagree: node={p1!r} template_fn={p2!r} lua={p3!r}")


# ---------------------------------------------------------------- generated-condition helpers
# Preconditions below use only per-character membership tests on fixed-length strings: str.strip()/split()
# inside a CrossHair precondition made the path tree non-exhaustible (measured), pinned positions do not.
NE = "ab1 \n"  # plain alphabet without '='
NB = "ab1"  # non-blank
NAMECH = "12a "
BL = " \n"


def _trim(n: str) -> str:
    i, j = 0, len(n)
    while i < j and n[i] in BL:
        i += 1
    while j > i and n[j - 1] in BL:
        j -= 1
    return n[i:j]


def _inner_ws_run(name: str) -> bool:
    """Region of the recorded finding C14/name-normalisation: the trimmed name contains a newline or two adjacent
    blanks (the expander collapses whitespace runs inside names to one space, the other two views do not)."""
    t = _trim(name)
    for i in range(len(t)):
        if t[i] == "\n":
            return True
        if t[i] == " " and i + 1 < len(t) and t[i + 1] == " ":
            return True
    return False


def _big_numeric(name: str) -> bool:
    """Region of the recorded finding C14/make_frame-limit: a numeric argument name above 1000 (make_frame clamps it
    to 1000 with a warning; the other two views keep it)"""
    t = _trim(name)
    return len(t) >= 4 and all(c in "0123456789" for c in t)


def _key(name: str):
    t = _trim(name)
    if len(t) > 0 and all(c in "12" for c in t):
        v = 0
        for c in t:
            v = v * 10 + (1 if c == "1" else 2)
        return v
    return t


def _keys(skeleton: str, names) -> list:
    """MediaWiki's naming: positional arguments are numbered independently of named ones."""
    out, n, it = [], 0, iter(names)
    for k in skeleton:
        if k == "P":
            n += 1
            out.append(n)
        else:
            out.append(_key(next(it)))
    return out


def _distinct_keys(keys) -> bool:
    for i in range(len(keys)):
        for j in range(i + 1, len(keys)):
            a, b = keys[i], keys[j]
            if isinstance(a, int) == isinstance(b, int) and a == b:
                return False
    return True


def _known_shift(skeleton: str, keys) -> bool:
    """Region of the recorded finding C14/make_frame: a positive-numeric *named* argument written before a
    positional one (make_frame bumps its positional counter to k+1, the other two views do not)."""
    seen = False
    for k, key in zip(skeleton, keys):
        if k == "N" and isinstance(key, int):
            seen = True
        elif k == "P" and seen:
            return True
    return False


def _known_shift_args(args) -> bool:
    """recorded regions on plain argument lists: numeric-named before positional, name with a whitespace run, numeric name > 1000"""
    seen = False
    for a in args:
        if "=" in a:
            k = a.split("=")[0].strip()
            if _inner_ws_run(a.split("=")[0]) or _big_numeric(a.split("=")[0]):
                return True
            if k.isdecimal() and int(k) > 0:
                seen = True
        elif seen:
            return True
    return False
