"""C17: analyze_templates marks exactly the closure (real analyze_templates on a real SQLite store, CrossHair
drives the case split over inclusion graphs; conditions appended by props/C17.py)."""
from wikitextprocessor import Wtp
from wikitextprocessor.core import Page

NAMES = ["A B", "Éc", "Dd", "Ee"]  # a space followed by a second capital (later letters are case-sensitive), a non-ASCII initial
RNAME = "Rr"
ctx = Wtp(quiet=True, quiet_output=True)


def lcfirst(s):
    return s[0].lower() + s[1:]


def setup(c, n, rt, preset=()):
    c.db_conn.execute("DELETE FROM pages")
    for i in range(n):
        # preset[i]: the template already carries the flag when the analysis starts (second analysis run, or added with it)
        c.add_page("Template:" + NAMES[i], 10, "x", need_pre_expand=bool(preset and preset[i]))
    if rt >= 0:
        target = "Template:" + (NAMES[rt] if rt < n else "Nowhere")
        c.add_page("Template:" + RNAME, 10, None, redirect_to=target)
    type(c).get_page.cache_clear()


VARIANTS = {
    "lc": lcfirst,  # lower-case initial
    "us": lambda s: s.replace(" ", "_"),  # underscore written for a space
    "pfx": lambda s: "Template:" + s,  # namespace prefix written out
    "lcpfx": lambda s: "template:" + lcfirst(s),
}


def analyze(c, n, inc, incR, flags, rt, rflag, variant="lc", preset=()):
    """inc[i][j] in {0: no, 1: i includes j (name as stored), 2: i includes j written in another spelling that get_page /
    expansion resolve to the same page (VARIANTS[variant])};
    incR[i]: i includes the redirect page by name; rt: redirect target index (-1 none, n dangling)."""
    setup(c, n, rt, preset)
    used = {}
    for i in range(n):
        s = set()
        for j in range(n):
            if inc[i][j] == 1:
                s.add(NAMES[j])
            elif inc[i][j] == 2:
                s.add(VARIANTS[variant](NAMES[j]))
        if rt >= 0 and incR[i]:
            s.add(RNAME)
        used[NAMES[i]] = s
    flg = {NAMES[i]: flags[i] for i in range(n)}

    def chk(wtp, page: Page):
        nm = page.title.removeprefix("Template:")
        if nm == RNAME:
            return set(), rflag
        return set(used[nm]), flg[nm]

    c.analyze_templates(chk)
    return {p.title.removeprefix("Template:") for p in c.get_all_pages([10]) if p.need_pre_expand}


def reference(n, inc, incR, flags, rt, rflag):
    marked = {NAMES[i] for i in range(n) if flags[i]}
    if rt >= 0 and rflag:
        marked.add(RNAME)
    changed = True
    while changed:  # least fixpoint of "includes a marked template"
        changed = False
        for i in range(n):
            if NAMES[i] in marked:
                continue
            hit = any(inc[i][j] != 0 and NAMES[j] in marked for j in range(n)) or (rt >= 0 and incR[i] and RNAME in marked)
            if hit:
                marked.add(NAMES[i])
                changed = True
    if 0 <= rt < n:  # redirects from or to a marked template
        if NAMES[rt] in marked:
            marked.add(RNAME)
        if RNAME in marked:
            marked.add(NAMES[rt])
    return marked


class NotTerminating(Exception):
    pass


def _with_alarm(seconds, fn, *a):
    """analyze_templates must terminate: a run that exceeds the budget (normal runs take milliseconds) is reported as a failure"""
    import signal

    def on_alarm(signum, frame):
        raise NotTerminating(f"analyze_templates did not return within {seconds} s")

    old = signal.signal(signal.SIGALRM, on_alarm)
    signal.alarm(seconds)
    try:
        return fn(*a)
    finally:
        signal.alarm(0)
        signal.signal(signal.SIGALRM, old)


def _pick(x, n: int) -> int:
    for v in range(n):
        if x == v:
            return v
    raise AssertionError("outside the precondition")


def _agree(n, inc, incR, flags, rt, rflag, variant, preset) -> bool:
    try:
        got = _with_alarm(15, analyze, ctx, n, inc, incR, flags, rt, rflag, variant, preset)
    except NotTerminating:
        ctx.db_conn.rollback()
        return False
    return got == reference(n, inc, incR, flags, rt, rflag)


def agree(n, inc, incR, flags, rt, rflag, variant="lc", preset=()) -> bool:
    """CrossHair replaces functools.lru_cache wrappers by the undecorated function while it traces; analyze_templates relies
    on get_page's memo being dropped at the right moments, so the solver only chooses the graph (case split by comparisons)
    and the analysis itself runs untraced, on the real memo and the real store."""
    from crosshair.tracers import NoTracing, is_tracing

    if is_tracing():
        inc = [[_pick(e, 3) for e in row] for row in inc]
        incR = [True if r else False for r in incR]
        with NoTracing():
            return _agree(n, inc, incR, flags, rt, rflag, variant, preset)
    return _agree(n, inc, incR, flags, rt, rflag, variant, preset)


def replay_case(n, inc, incR, flags, rt, rflag, variant="lc", preset=()):
    c = Wtp(quiet=True, quiet_output=True)
    want = reference(n, inc, incR, flags, rt, rflag)
    try:
        got = _with_alarm(15, analyze, c, n, inc, incR, flags, rt, rflag, variant, preset)
    except NotTerminating as e:
        got = {"<" + str(e) + ">"}
    edges = [f"{NAMES[i]} includes {NAMES[j] if inc[i][j] == 1 else VARIANTS[variant](NAMES[j])!r}" for i in range(n) for j in range(n) if inc[i][j]]
    edges += [f"{NAMES[i]} includes {RNAME}" for i in range(n) if rt >= 0 and incR[i]]
    red = "" if rt < 0 else f"; redirect {RNAME} -> {NAMES[rt] if rt < n else 'Nowhere'}{' (flagged)' if rflag else ''}"
    pre = f"; already flagged before the analysis: {[NAMES[i] for i in range(n) if preset and preset[i]]}" if preset and any(preset) else ""
    sig = f"analyze_templates on templates {NAMES[:n]}: {'; '.join(edges) or 'no inclusions'}; flagged {[NAMES[i] for i in range(n) if flags[i]]}{red}{pre}"
    return (sig, got != want, f"marked {sorted(got)}, closure is {sorted(want)}")


# ---------------------------------------------------------------- a redirect to a redirect (chain R2 -> R -> template)
R2NAME = "Ss"


def analyze_chain(c, n, inc, incR, rinc, flags, rt, rflag):
    """as analyze(), plus: the redirect page R may itself include templates (rinc[j]) and a second redirect page R2 points
    at R.  R2 is a redirect to R: it is marked exactly when R is in the closure."""
    setup(c, n, rt)
    c.add_page("Template:" + R2NAME, 10, None, redirect_to="Template:" + RNAME)
    type(c).get_page.cache_clear()
    used = {NAMES[i]: {NAMES[j] for j in range(n) if inc[i][j]} | ({RNAME} if incR[i] else set()) for i in range(n)}
    used[RNAME] = {NAMES[j] for j in range(n) if rinc[j]}
    used[R2NAME] = set()
    flg = {NAMES[i]: flags[i] for i in range(n)}
    flg[RNAME], flg[R2NAME] = rflag, False

    def chk(wtp, page: Page):
        nm = page.title.removeprefix("Template:")
        return set(used[nm]), flg[nm]

    c.analyze_templates(chk)
    return {p.title.removeprefix("Template:") for p in c.get_all_pages([10]) if p.need_pre_expand}


def reference_chain(n, inc, incR, rinc, flags, rt, rflag):
    nodes = NAMES[:n] + [RNAME]
    edges = {NAMES[i]: {NAMES[j] for j in range(n) if inc[i][j]} | ({RNAME} if incR[i] else set()) for i in range(n)}
    edges[RNAME] = {NAMES[j] for j in range(n) if rinc[j]}
    marked = {NAMES[i] for i in range(n) if flags[i]} | ({RNAME} if rflag else set())
    changed = True
    while changed:
        changed = False
        for x in nodes:
            if x not in marked and edges[x] & marked:
                marked.add(x)
                changed = True
    out = set(marked)
    # redirects from or to a template of the closure (one step)
    if rt < n and NAMES[rt] in marked:
        out.add(RNAME)
    if RNAME in marked:
        out.add(R2NAME)
        if rt < n:
            out.add(NAMES[rt])
    return out


def _agree_chain(n, inc, incR, rinc, flags, rt, rflag) -> bool:
    try:
        got = _with_alarm(15, analyze_chain, ctx, n, inc, incR, rinc, flags, rt, rflag)
    except NotTerminating:
        ctx.db_conn.rollback()
        return False
    return got == reference_chain(n, inc, incR, rinc, flags, rt, rflag)


def agree_chain(n, inc, incR, rinc, flags, rt, rflag) -> bool:
    from crosshair.tracers import NoTracing, is_tracing

    if is_tracing():
        inc = [[_pick(e, 2) for e in row] for row in inc]
        incR = [True if r else False for r in incR]
        rinc = [True if r else False for r in rinc]
        with NoTracing():
            return _agree_chain(n, inc, incR, rinc, flags, rt, rflag)
    return _agree_chain(n, inc, incR, rinc, flags, rt, rflag)


def replay_chain(n, inc, incR, rinc, flags, rt, rflag):
    c = Wtp(quiet=True, quiet_output=True)
    want = reference_chain(n, inc, incR, rinc, flags, rt, rflag)
    try:
        got = _with_alarm(15, analyze_chain, c, n, inc, incR, rinc, flags, rt, rflag)
    except NotTerminating as e:
        got = {"<" + str(e) + ">"}
    edges = [f"{NAMES[i]} includes {NAMES[j]}" for i in range(n) for j in range(n) if inc[i][j]]
    edges += [f"{NAMES[i]} includes {RNAME}" for i in range(n) if incR[i]] + [f"{RNAME} includes {NAMES[j]}" for j in range(n) if rinc[j]]
    sig = f"analyze_templates on templates {NAMES[:n]}: {'; '.join(edges) or 'no inclusions'}; flagged {[NAMES[i] for i in range(n) if flags[i]]}; redirects {R2NAME} -> {RNAME} -> {NAMES[rt] if rt < n else 'Nowhere'}{' (' + RNAME + ' flagged)' if rflag else ''}"
    return (sig, got != want, f"marked {sorted(got)}, closure plus redirects is {sorted(want)}")
