"""C18 Ob5: #expr operators compute the documented values (operator level, CrossHair).
Reference semantics from Help:Calculation / ExprParser.php (PHP arithmetic):
  mod    : both operands truncated to integers; remainder with the sign of the dividend; right operand 0 -> error
  round  : PHP round(): half away from zero; the digit count is truncated to an integer
  / div  : real division; division by zero -> error
"""
import math

import wikitextprocessor.parserfns as P


def op(table, name):
    """operator implementation from the live tables (by operator name: survives a renaming/merging of the tables)"""
    for k, v in vars(P).items():
        if k.endswith("_fns") and isinstance(v, dict) and name in v and (k.startswith("unary") == table.startswith("unary")):
            return v[name]
    raise LookupError(name)


ALL_OPS = all(any(k.endswith("_fns") and isinstance(v, dict) and n in v for k, v in vars(P).items()) for n in ["mod", "/", "div", "*", "+", "-", "round", "=", "!=", "<>", "<", ">", "<=", ">=", "and", "or", "not", "abs"])


def ref_mod(x, y):
    xi, yi = math.trunc(x), math.trunc(y)
    if yi == 0:
        return "ERR"
    r = abs(xi) % abs(yi)
    return -r if xi < 0 else r


def ref_round_int(x: int, d: int):
    """round an integer x to d digits (d <= 0 rounds to tens, hundreds ...), half away from zero"""
    if d >= 0:
        return x
    m = 10 ** (-d)
    q, r = divmod(abs(x), m)
    if 2 * r >= m:
        q += 1
    v = q * m
    return -v if x < 0 else v


def ref_round_half(k: int):
    """round k/2 to 0 digits, half away from zero"""
    a = abs(k)
    v = (a + 1) // 2
    return -v if k < 0 else v


def is_err(v) -> bool:
    return isinstance(v, str)


def same_num(a, b) -> bool:
    return (not isinstance(a, str)) and a == b
