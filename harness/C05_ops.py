"""C05 Ob2: #expr operator tables - every operator raises at most the exception classes that expr_fn's barrier
catches (classes are read from the AST by props/C05.py and substituted into the `raises:` lines)."""
import wikitextprocessor.parserfns as P

TABLES = ["unary_fns", "binary_e_fns", "binary_pow_fns", "binary_mul_fns", "binary_add_fns", "binary_round_fns", "binary_cmp_fns", "binary_and_fns", "binary_or_fns"]


def table(name):
    return getattr(P, name)


def ok(r) -> bool:
    return isinstance(r, (int, float, str))
