"""C05 Ob4: detect_expand_template_loop == 'the stack ends in a pattern repeated at least twice whose first
entry is not an ARGVAL- frame' for every stack of symbolic strings (CrossHair)."""
from wikitextprocessor.core import detect_expand_template_loop

import os

N = 5 if os.environ.get("VERIF_TIER", "quick") == "quick" else 6


def ref(stack) -> bool:
    n = len(stack)
    for p in range(1, n // 2 + 1):  # pattern length
        for k in range(2, n // p + 1):  # repetitions
            i = n - p * k
            if stack[i].startswith("ARGVAL-"):
                continue
            ok = True
            for j in range(i, n - p):
                if stack[j] != stack[j + p]:
                    ok = False
                    break
            if ok:
                return True
    return False



NAMES = ["Template:a", "Template:b", "ARGVAL-1", "TEMPLATE_NAME", "ARGVAL-x"]  # argument frames are named after the key: a number or a name


def _pick(x, n: int) -> int:
    for v in range(n):
        if x == v:
            return v
    raise AssertionError("outside the precondition")


def _cmp(cs) -> bool:
    """the solver chooses the stack (case split by comparisons); the detector and the reference then run untraced on the
    concrete stack (nothing symbolic is left, tracing would only cost time)"""
    from crosshair.tracers import NoTracing, is_tracing

    if is_tracing():
        cs = [_pick(c, len(NAMES)) for c in cs]
        with NoTracing():
            st = [NAMES[c] for c in cs]
            return detect_expand_template_loop(list(st)) == ref(st)
    st = [NAMES[c] for c in cs]
    return detect_expand_template_loop(list(st)) == ref(st)


def loop_2(c0: int, c1: int) -> bool:
    """
    pre: 2 <= N and 0 <= c0 < 5 and 0 <= c1 < 5
    post: _
    """
    return _cmp([c0, c1])


def replay_loop_2(c0, c1):
    st = [NAMES[c0], NAMES[c1]]
    got, want = detect_expand_template_loop(list(st)), ref(list(st))
    return ("detect_expand_template_loop(" + repr(st) + ")", got != want, f"returns {got}, a repeated tail pattern {'exists' if want else 'does not exist'}")


def loop_3(c0: int, c1: int, c2: int) -> bool:
    """
    pre: 3 <= N and 0 <= c0 < 5 and 0 <= c1 < 5 and 0 <= c2 < 5
    post: _
    """
    return _cmp([c0, c1, c2])


def replay_loop_3(c0, c1, c2):
    st = [NAMES[c0], NAMES[c1], NAMES[c2]]
    got, want = detect_expand_template_loop(list(st)), ref(list(st))
    return ("detect_expand_template_loop(" + repr(st) + ")", got != want, f"returns {got}, a repeated tail pattern {'exists' if want else 'does not exist'}")


def loop_4(c0: int, c1: int, c2: int, c3: int) -> bool:
    """
    pre: 4 <= N and 0 <= c0 < 5 and 0 <= c1 < 5 and 0 <= c2 < 5 and 0 <= c3 < 5
    post: _
    """
    return _cmp([c0, c1, c2, c3])


def replay_loop_4(c0, c1, c2, c3):
    st = [NAMES[c0], NAMES[c1], NAMES[c2], NAMES[c3]]
    got, want = detect_expand_template_loop(list(st)), ref(list(st))
    return ("detect_expand_template_loop(" + repr(st) + ")", got != want, f"returns {got}, a repeated tail pattern {'exists' if want else 'does not exist'}")


def loop_5(c0: int, c1: int, c2: int, c3: int, c4: int) -> bool:
    """
    pre: 5 <= N and 0 <= c0 < 5 and 0 <= c1 < 5 and 0 <= c2 < 5 and 0 <= c3 < 5 and 0 <= c4 < 5
    post: _
    """
    return _cmp([c0, c1, c2, c3, c4])


def replay_loop_5(c0, c1, c2, c3, c4):
    st = [NAMES[c0], NAMES[c1], NAMES[c2], NAMES[c3], NAMES[c4]]
    got, want = detect_expand_template_loop(list(st)), ref(list(st))
    return ("detect_expand_template_loop(" + repr(st) + ")", got != want, f"returns {got}, a repeated tail pattern {'exists' if want else 'does not exist'}")


def loop_6(c0: int, c1: int, c2: int, c3: int, c4: int, c5: int) -> bool:
    """
    pre: 6 <= N and 0 <= c0 < 5 and 0 <= c1 < 5 and 0 <= c2 < 5 and 0 <= c3 < 5 and 0 <= c4 < 5 and 0 <= c5 < 5
    post: _
    """
    return _cmp([c0, c1, c2, c3, c4, c5])


def replay_loop_6(c0, c1, c2, c3, c4, c5):
    st = [NAMES[c0], NAMES[c1], NAMES[c2], NAMES[c3], NAMES[c4], NAMES[c5]]
    got, want = detect_expand_template_loop(list(st)), ref(list(st))
    return ("detect_expand_template_loop(" + repr(st) + ")", got != want, f"returns {got}, a repeated tail pattern {'exists' if want else 'does not exist'}")

