"""C10: page store - spelling agreement between add_page and get_page (recorder stub, symbolic titles) and
read-after-write over bounded histories on the real SQLite store + real lru_cache (history chosen by CrossHair, operations untraced)."""
import os

from wikitextprocessor import Wtp

ctx = Wtp(quiet=True, quiet_output=True)
REAL_CONN = ctx.db_conn
_GET = Wtp.get_page.__wrapped__ if hasattr(Wtp.get_page, "__wrapped__") else Wtp.get_page
T = "aA_ b"


class Recorder:
    """stands in for the sqlite3 connection: records statements, answers 'no rows'"""

    def __init__(self):
        self.calls = []

    def execute(self, q, vals=()):
        self.calls.append((q, tuple(vals)))
        return []

    def commit(self):
        pass


def stored_key(title: str, ns):
    rec = Recorder()
    ctx.db_conn = rec
    try:
        ctx.add_page(title, ns, "body")
    finally:
        ctx.db_conn = REAL_CONN
    ins = [v for q, v in rec.calls if "INSERT" in q.upper()]
    return ins[0][0], ins[0][1]  # (title, namespace_id) as written


def looked_up(title: str, ns):
    rec = Recorder()
    ctx.db_conn = rec
    try:
        _GET(ctx, title, ns)
    finally:
        ctx.db_conn = REAL_CONN
    out = []
    for q, v in rec.calls:
        out.extend(x for x in v if isinstance(x, str))
    return out


# namespace 4 is the one whose local name ("Wiktionary") differs from its canonical key ("Project")
PREFIX = {10: "Template:", 828: "Module:", 4: "Wiktionary:"}
LOWER = {10: "template:", 828: "module:", 4: "wiktionary:"}
ALIAS = {10: "T:", 828: "MOD:", 4: "WT:"}
CANON = {10: "Template:", 828: "Module:", 4: "Project:"}


def _found(stored_title: str, lookup: str, ns) -> bool:
    k, kns = stored_key(stored_title, ns)
    return kns == ns and k in looked_up(lookup, ns)


# -- real store histories --------------------------------------------------------------------------------------
TITLES = ["Template:Foo", "Template:Bar"]
NS = 10
BODIES = ["one", "two"]
OPS = ["add0", "add1", "redirect", "get", "exists", "body", "resolve", "add0s", "redirect_bare", "redirect_lc", "main_lookup"]
# how the redirect target is written in the three redirect operations (the page it names is TITLES[1 - t] in all of them)
TARGET_SPELLING = {"redirect": lambda o: o, "redirect_bare": lambda o: o.split(":", 1)[1], "redirect_lc": lambda o: "template:" + o.split(":", 1)[1][0].lower() + o.split(":", 1)[1][1:]}


def apply_real(op: int, t: int):
    title, other = TITLES[t], TITLES[1 - t]
    o = OPS[op]
    if o == "add0" or o == "add1":
        ctx.add_page(title, NS, BODIES[0 if o == "add0" else 1])
        return None
    if o in TARGET_SPELLING:
        ctx.add_page(title, NS, None, redirect_to=TARGET_SPELLING[o](other))
        return None
    if o == "add0s":  # same body as add0, another content model
        ctx.add_page(title, NS, BODIES[0], model="Scribunto")
        return None
    if o == "main_lookup":  # the same spelling looked up in the MAIN namespace: no such page was ever added there
        p = ctx.get_page(title, 0)
        return (None if p is None else (p.title, p.namespace_id), ctx.page_exists(title))
    if o == "get":
        p = ctx.get_page(title, NS)
        return None if p is None else (p.title, p.body, p.redirect_to, p.model)
    if o == "exists":
        return ctx.page_exists(title, NS)
    if o == "body":
        p = ctx.get_page(title, NS)
        return None if p is None else p.body
    p = ctx.get_page_resolve_redirect(title, NS)
    return None if p is None else (p.title, p.body)


def apply_model(m: dict, op: int, t: int):
    """dict model; a record is (title, body, redirect_to as written, model, page the redirect names)"""
    title, other = TITLES[t], TITLES[1 - t]
    o = OPS[op]
    if o == "add0" or o == "add1":
        m[title] = (title, BODIES[0 if o == "add0" else 1], None, "wikitext", None)
        return None
    if o in TARGET_SPELLING:
        m[title] = (title, None, TARGET_SPELLING[o](other), "wikitext", other)
        return None
    if o == "add0s":
        m[title] = (title, BODIES[0], None, "Scribunto", None)
        return None
    p = m.get(title)
    if o == "main_lookup":
        return (None, False)
    if o == "get":
        return None if p is None else p[:4]
    if o == "exists":
        return p is not None
    if o == "body":
        return None if p is None else p[1]
    if p is None:
        return None
    if p[4] is not None:  # one hop
        q = m.get(p[4])
        if q is None or q[4] is not None:
            return None
        return (q[0], q[1])
    return (p[0], p[1])


def _clear_memos():
    # every lru_cache found on the class (not only the one known today)
    for name, v in vars(Wtp).items():
        if hasattr(v, "cache_clear"):
            v.cache_clear()


def run_history(ops, kinds=None) -> bool:
    """CrossHair replaces functools.lru_cache wrappers by the undecorated function while it traces
    (crosshair/libimpl/functoolslib.py), which would hide exactly the memoisation this property is about.  The solver
    therefore only chooses the history (case split by comparisons, one solver query per fork), and the operations themselves
    run untraced on the real store with the real memo.  `kinds`: the operation codes the symbolic positions (all but the
    first) range over."""
    from crosshair.tracers import NoTracing, is_tracing

    kinds = list(range(len(OPS))) if kinds is None else kinds
    if is_tracing():
        # not crosshair.realize: a variable that is always realised makes CrossHair realise it "prematurely", before the
        # precondition bounds it, and that unbounded subtree can never be exhausted
        ops = [ops[0]] + [(kinds[_pick(op, len(kinds))], _pick(t, len(TITLES))) for op, t in ops[1:]]
        with NoTracing():
            return _run_history(ops)
    return _run_history([ops[0]] + [(kinds[op], t) for op, t in ops[1:]])


def _pick(x, n: int) -> int:
    for v in range(n):
        if x == v:
            return v
    raise AssertionError("outside the precondition")


def _run_history(ops) -> bool:
    ctx.db_conn.execute("DELETE FROM pages")
    _clear_memos()
    m: dict = {}
    for op, t in ops:
        if apply_real(op, t) != apply_model(m, op, t):
            return False
    return True


def describe(ops):
    out = []
    for op, t in ops:
        o = OPS[op]
        title = TITLES[t]
        out.append({"add0": f"add_page({title!r}, 10, 'one')", "add1": f"add_page({title!r}, 10, 'two')", "redirect": f"add_page({title!r}, 10, None, redirect_to={TITLES[1 - t]!r})", "redirect_bare": f"add_page({title!r}, 10, None, redirect_to={TARGET_SPELLING['redirect_bare'](TITLES[1 - t])!r})", "redirect_lc": f"add_page({title!r}, 10, None, redirect_to={TARGET_SPELLING['redirect_lc'](TITLES[1 - t])!r})", "main_lookup": f"get_page({title!r}, 0) / page_exists({title!r})", "get": f"get_page({title!r}, 10)", "exists": f"page_exists({title!r}, 10)", "body": f"get_page({title!r}, 10).body", "resolve": f"get_page_resolve_redirect({title!r}, 10)", "add0s": f"add_page({title!r}, 10, 'one', model='Scribunto')"}[o])
    return "; ".join(out)


def replay_history(ops, kinds=None):
    kinds = list(range(len(OPS))) if kinds is None else kinds
    ops = [ops[0]] + [(kinds[op], t) for op, t in ops[1:]]
    c = Wtp(quiet=True, quiet_output=True)
    global ctx
    saved = ctx
    ctx = c
    try:
        ok = run_history(ops)
    finally:
        ctx = saved
    return ("history on a fresh context: " + describe(ops), not ok, "a lookup does not return the most recently added version (or an absent page is found)")


# ---------------------------------------------------------------- committed content through a new context on the same file
# where the database file lies relative to the directory tempfile.gettempdir() reports (redirected to a scratch directory
# for the duration of one history): a file DIRECTLY in that directory is the throw-away database create_db() makes for
# db_path=None and is deleted by close_db_conn() by design - not part of the claim; every other place must survive.
DB_PLACES = ["sub/p.db", "sub/deeper/p.db", "../elsewhere/p.db", "../tmpdir_sibling/p.db", "sub/wikitextprocessor_tempdb1"]
REOPEN_PAGES = [("Foo", 0, "b0"), ("Template:Bar", 10, "b1"), ("Template:Old", 10, None)]


def _reopen_bad(place: int, n_pages: int, how: int):
    """how: 0 close_db_conn() then reopen; 1 db_conn.commit() and reopen while the first context is still open;
    2 close, reopen, close again, reopen again"""
    import shutil
    import tempfile
    from pathlib import Path

    root = Path(tempfile.mkdtemp(prefix="verif_c10_"))
    saved = tempfile.tempdir
    try:
        (root / "tmpdir").mkdir()
        tempfile.tempdir = str(root / "tmpdir")
        p = (root / "tmpdir" / DB_PLACES[place]).resolve()
        p.parent.mkdir(parents=True, exist_ok=True)
        w = Wtp(db_path=p, quiet=True, quiet_output=True)
        want = []
        for title, ns, body in REOPEN_PAGES[:n_pages]:
            w.add_page(title, ns, body, redirect_to=None if body is not None else "Template:Bar")
            want.append((title, ns, body, None if body is not None else "Template:Bar"))
        if how == 1:
            w.db_conn.commit()
        else:
            w.close_db_conn()
        w2 = Wtp(db_path=p, quiet=True, quiet_output=True)
        if how == 2:
            w2.close_db_conn()
            w2 = Wtp(db_path=p, quiet=True, quiet_output=True)
        got = sorted((pg.title, pg.namespace_id, pg.body, pg.redirect_to) for pg in w2.get_all_pages())
        look = [(t, ns, w2.page_exists(t, ns)) for t, ns, _b, _r in want]
        w2.db_conn.close()
        if how == 1:
            w.db_conn.close()
        bad = got != sorted(want) or not all(x[2] for x in look)
        sig = f"Wtp(db_path=<tempdir>/{DB_PLACES[place]}); {n_pages} add_page; " + ["close_db_conn()", "db_conn.commit()", "close_db_conn(); reopen; close_db_conn()"][how] + "; Wtp(db_path=same).get_all_pages()"
        return sig, bad, f"pages read through the new context {got}, page_exists {look}; committed {sorted(want)}"
    finally:
        tempfile.tempdir = saved
        shutil.rmtree(root, ignore_errors=True)


def reopen_step(place, n_pages, how) -> bool:
    from crosshair.tracers import NoTracing, is_tracing

    if is_tracing():
        place, n_pages, how = _pick(place, len(DB_PLACES)), 1 + _pick(n_pages - 1, len(REOPEN_PAGES)), _pick(how, 3)
        with NoTracing():
            return not _reopen_bad(place, n_pages, how)[1]
    return not _reopen_bad(place, n_pages, how)[1]


def replay_reopen(place, n_pages, how):
    return _reopen_bad(place, n_pages, how)
