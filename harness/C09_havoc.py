"""C09: per-page context state is irrelevant to the next page (havoc harness, CrossHair).

Every per-page slot of the context is set to an arbitrary (symbolic) value, then the documented protocol is
followed (start_page; parse/expand) and the result is compared with the one a fresh context produced.
"""
import os
from collections import defaultdict

from wikitextprocessor import Wtp
from wikitextprocessor.parser import WikiNode, NodeKind

TEMPLATES = {
    "a": "A{{{1|d}}}{{b|x={{{1}}}}}",
    "b": "* B{{{x}}}<nowiki>{{a}}</nowiki>",
    "c": "{{#if:{{{1|}}}|y|n}}",
}
PARSE_DOCS = [
    "== H ==\ntext\n=== S ===\n* a\n** b\n# c\n",
    "{|\n! h1 !! h2\n|-\n| a || b\n|}\nafter",
    " pre line\n<pre>x '''y'''</pre>\n----\n;t:d\n",
    "[[link|text]] [http://x.y z] ''i'' '''b''' <b>k</b>",
    "{{a|1}} {{{arg|def}}} {{#if:x|y}} <nowiki>[[n]]</nowiki>",
    "<div class=\"c\">d<br/>e</div>\n<ref name=r>x</ref>\n: indent\n",
    "text __NOTOC__ &amp; <!-- c --> end\n\nnew para\n*list end",
]
if os.environ.get("VERIF_TIER") == "thorough":
    Q = chr(39)
    PARSE_DOCS += [
        "* a\n*# b\n*#: c\n; t\n: d\n",
        "{| class=\"wikitable\" style=\"x\"\n|+ cap\n|-\n! scope=\"col\" | h\n|-\n| a\n| b\n|}",
        "<pre>\n== not heading ==\n</pre>\n== heading ==\n",
        "[[File:x.png|thumb|caption with [[link]] and {{a|1}}]]",
        Q * 5 + "both" + Q * 5 + " " + Q * 2 + "i" + Q * 3 + "b" + Q * 3 + "i" + Q * 2 + "\n" + Q * 3 + "unclosed\n",
        "<ul><li>one<li>two</ul><table><tr><td>c</td></tr></table>",
        "{{#switch:x|a=1|#default=d}} {{#tag:ref|note}} {{{1|{{a}}}}}",
        "<math>x^2</math> <span id=\"i\">s</span> <!--c--> text&nbsp;more",
        "= L1 =\n====== L6 ======\n----\n== L2 ==\n#REDIRECT [[x]]\n",
        "http://example.com/path [mailto:x@y z] [[a|b]]c\n",
    ]
EXPAND_DOCS = [
    "{{a|q}} [[l|{{b|x=1}}]] <nowiki>''</nowiki> {{#if:x|y|z}} {{{u|v}}} {{missing}}",
    "{{c}}{{c|1}}\n== h ==\n{{#expr: 1 + 2}}{{lc:ABC}}",
    "{{a}}{{a}}{{a|<nowiki>|</nowiki>}}",
]


if os.environ.get("VERIF_TIER") == "thorough":
    EXPAND_DOCS += [
        "{{a|{{a|{{a|x}}}}}} {{b|x={{c|1}}}}",
        "{{#ifeq:{{c}}|n|same|diff}} {{#len:{{a|zz}}}} {{padleft:7|3}}",
        "{{a|1=one|1=two}} {{a| spaced }} {{c| }}",
        "<nowiki>{{a}}</nowiki>{{a|<nowiki/>}} [[x|{{c}}]] [http://x {{c|1}}]",
        "{{{undefined}}} {{{undefined|}}} {{missing|{{a}}}}",
    ]


def make_ctx():
    c = Wtp(quiet=True, quiet_output=True)
    for k, v in TEMPLATES.items():
        c.add_page("Template:" + k, 10, v)
    c.db_conn.commit()
    return c


def dump(n):
    if isinstance(n, str):
        return n
    if isinstance(n, (list, tuple)):
        return [dump(x) for x in n]
    if isinstance(n, WikiNode):
        return (n.kind.name, dump(n.sarg), dump(n.largs), dict(n.attrs), dump(n.children), getattr(n, "definition", None) and dump(n.definition))
    return n


def run_parse(c, doc, **kw):
    c.start_page("T")
    t = c.parse(doc, **kw)
    return (dump(t), c.to_return(), list(c.expand_stack), c.parser_stack)


def run_expand(c, doc, **kw):
    c.start_page("T")
    r = c.expand(doc, **kw)
    return (r, c.to_return(), list(c.expand_stack))


fresh = make_ctx()
EXP_PARSE = [run_parse(fresh, d) for d in PARSE_DOCS]
EXP_PARSE_PRE = [run_parse(fresh, d, pre_expand=True) for d in PARSE_DOCS]
EXP_EXPAND = [run_expand(fresh, d) for d in EXPAND_DOCS]
EXP_EXPAND_PRE = [run_expand(fresh, d, pre_expand=True) for d in EXPAND_DOCS]
ctx = make_ctx()


def havoc(bol: bool, wsp: bool, linenum: int, pre_parse: bool, supp: bool, sec: str, has_sec: bool, junk: str, smc: int, pstack: bool) -> None:
    """Arbitrary prior per-page state.  Symbolic strings are never used as dict keys (hashing realises them)."""
    ctx.beginning_of_line = bol
    ctx.wsp_beginning_of_line = wsp
    ctx.linenum = linenum
    ctx.pre_parse = pre_parse
    ctx.suppress_special = supp
    ctx.section = sec if has_sec else None
    ctx.subsection = sec if has_sec else None
    ctx.title = junk
    # fixed shapes, arbitrary contents: list lengths are not symbolic (each symbolic length multiplies the path
    # count without adding information - every one of these containers is replaced wholesale by start_page)
    ctx.expand_stack = [junk, sec, junk]
    ctx.cookies = [("T", (junk,), False), ("A", (sec, junk), True)]
    ctx.rev_ht = {("T", ("zz",), False): chr(0x10203E + 1)}
    for name in ("errors", "warnings", "debugs", "notes", "wiki_notices"):
        setattr(ctx, name, [{"msg": junk, "title": sec}])
    ctx.strip_marker_cache.clear()
    ctx.strip_marker_cache["nowiki"] = smc
    ctx.strip_marker_cache["ref"] = smc
    ctx.parser_stack = [WikiNode(NodeKind.ROOT, 0), WikiNode(NodeKind.LEVEL2, 3)] if pstack else []
    ctx.fullpage = junk


DIRTY = [
    "<pre>unclosed", "{|\n| unclosed table", "* list\n** end", "'''unclosed bold", "<nowiki>unclosed", "[[unclosed link", "== unclosed heading",
    "<div>unclosed", "{{a|{{{1}}}", "<ref>x", " leading space", "{{#invoke:nomod|f}}", "{{#expr:1+}}", "text\n", ";a:b", "----", "<nowiki>x</nowiki><nowiki>y</nowiki><ref>1</ref><ref>2</ref>",
    "{{a}}{{b}}{{c}}", "== A ==\n=== B ===\n", "<b>", "{{{x", "[http://x", "<pre>\n== h ==\n",
]


def find_history(kind: str, idx: int, pre_expand: bool):
    """Replay: is there a real history (a 'dirtying' page processed first) after which the document's result
    differs from the fresh-context result?  Returns (signature, reproduced, what)."""
    docs, exp = (PARSE_DOCS, EXP_PARSE_PRE if pre_expand else EXP_PARSE) if kind == "parse" else (EXPAND_DOCS, EXP_EXPAND_PRE if pre_expand else EXP_EXPAND)
    run = run_parse if kind == "parse" else run_expand
    for dirty in DIRTY:
        for how in ("parse", "expand", "parse-pre"):
            c = make_ctx()
            c.start_page("Dirty")
            try:
                if how == "parse":
                    c.parse(dirty)
                elif how == "parse-pre":
                    c.parse(dirty, pre_expand=True)
                else:
                    c.expand(dirty)
            except Exception:  # noqa: BLE001
                pass
            try:
                got = run(c, docs[idx], **({"pre_expand": True} if pre_expand else {}))
            except Exception as e:  # noqa: BLE001
                got = ("EXC", repr(e))
            if got != exp[idx]:
                diff = "tree/messages differ"
                if isinstance(got, tuple) and got[0] != exp[idx][0]:
                    diff = f"result {str(got[0])[:120]!r} instead of {str(exp[idx][0])[:120]!r}"
                return (f"history: start_page('Dirty'); {how}({dirty!r}); start_page('T'); {kind}({docs[idx]!r}{', pre_expand=True' if pre_expand else ''})", True, f"page result depends on the previously processed page: {diff}")
    return (f"{kind}({docs[idx]!r})", False, "no dirtying page of the replay catalogue reaches the havoc state")

