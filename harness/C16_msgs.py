"""C16 Ob3/Ob4: message records and start_page reset, symbolic context state (CrossHair)."""
from wikitextprocessor import Wtp

ctx = Wtp(quiet=True, quiet_output=True)
KEYS = {"msg", "trace", "title", "section", "subsection", "called_from", "path"}
KINDS = ["error", "warning", "debug", "note", "wiki_notice"]
LISTS = {"error": "errors", "warning": "warnings", "debug": "debugs", "note": "notes", "wiki_notice": "wiki_notices"}


def _one(kind: str, msg: str, trace: str, has_trace: bool, sortid: str, title: str, sec: str, has_sec: bool, sub: str, has_sub: bool, st: list[str]) -> bool:
    ctx.title = title
    ctx.section = sec if has_sec else None
    ctx.subsection = sub if has_sub else None
    ctx.expand_stack = list(st)
    for l in LISTS.values():
        setattr(ctx, l, [])
    getattr(ctx, kind)(msg, trace if has_trace else None, sortid)
    for k, l in LISTS.items():
        lst = getattr(ctx, l)
        if k != kind:
            if lst != []:
                return False
            continue
        if len(lst) != 1:
            return False
        r = lst[0]
        if set(r.keys()) != KEYS:
            return False
        if r["msg"] != msg or r["called_from"] != sortid:
            return False
        if r["trace"] != (trace if has_trace else ""):
            return False
        if r["title"] != (title or "ERROR_TITLE"):
            return False
        if r["section"] != (sec if has_sec else "") or r["subsection"] != (sub if has_sub else ""):
            return False
        if r["path"] != tuple(st) or not isinstance(r["path"], tuple):
            return False
    return ctx.expand_stack == list(st)


def msg_error(msg: str, trace: str, has_trace: bool, sortid: str, title: str, sec: str, has_sec: bool, sub: str, has_sub: bool, st: list[str]) -> bool:
    """
    pre: len(st) <= 3 and len(title) <= 4 and len(msg) <= 4
    post: _
    """
    return _one("error", msg, trace, has_trace, sortid, title, sec, has_sec, sub, has_sub, st)


def msg_warning(msg: str, trace: str, has_trace: bool, sortid: str, title: str, sec: str, has_sec: bool, sub: str, has_sub: bool, st: list[str]) -> bool:
    """
    pre: len(st) <= 3 and len(title) <= 4 and len(msg) <= 4
    post: _
    """
    return _one("warning", msg, trace, has_trace, sortid, title, sec, has_sec, sub, has_sub, st)


def msg_debug(msg: str, trace: str, has_trace: bool, sortid: str, title: str, sec: str, has_sec: bool, sub: str, has_sub: bool, st: list[str]) -> bool:
    """
    pre: len(st) <= 3 and len(title) <= 4 and len(msg) <= 4
    post: _
    """
    return _one("debug", msg, trace, has_trace, sortid, title, sec, has_sec, sub, has_sub, st)


def msg_note(msg: str, trace: str, has_trace: bool, sortid: str, title: str, sec: str, has_sec: bool, sub: str, has_sub: bool, st: list[str]) -> bool:
    """
    pre: len(st) <= 3 and len(title) <= 4 and len(msg) <= 4
    post: _
    """
    return _one("note", msg, trace, has_trace, sortid, title, sec, has_sec, sub, has_sub, st)


def msg_wiki_notice(msg: str, trace: str, has_trace: bool, sortid: str, title: str, sec: str, has_sec: bool, sub: str, has_sub: bool, st: list[str]) -> bool:
    """
    pre: len(st) <= 3 and len(title) <= 4 and len(msg) <= 4
    post: _
    """
    return _one("wiki_notice", msg, trace, has_trace, sortid, title, sec, has_sec, sub, has_sub, st)


def start_page_resets(title: str, junk: str, n: int, st: list[str], sec: str, prev_title: str, same_title: bool, clean_path: bool) -> bool:
    """
    pre: 0 <= n <= 2 and len(st) <= 3 and 1 <= len(title) <= 4
    post: _
    """
    for l in LISTS.values():
        setattr(ctx, l, [{"msg": junk}] * n)
    # the page that was processed before: any title (possibly the same one), any expansion path (possibly the clean one)
    ctx.title = title if same_title else prev_title
    ctx.expand_stack = [ctx.title] if clean_path else list(st)
    ctx.section = sec
    ctx.subsection = sec
    ctx.start_page(title)
    return (
        all(getattr(ctx, l) == [] for l in LISTS.values())
        and ctx.expand_stack == [title]
        and ctx.title == title
        and ctx.section is None
        and ctx.subsection is None
    )


def _replay_msg(kind):
    def rp(msg, trace, has_trace, sortid, title, sec, has_sec, sub, has_sub, st):
        ok = _one(kind, msg, trace, has_trace, sortid, title, sec, has_sec, sub, has_sub, st)
        return (f"Wtp.{kind}({msg!r}, {trace if has_trace else None!r}, {sortid!r}) with title={title!r} section={sec if has_sec else None!r} subsection={sub if has_sub else None!r} expand_stack={st!r}", not ok, f"message record of Wtp.{kind}() lacks/garbles a documented field")
    return rp


replay_msg_error = _replay_msg("error")
replay_msg_warning = _replay_msg("warning")
replay_msg_debug = _replay_msg("debug")
replay_msg_note = _replay_msg("note")
replay_msg_wiki_notice = _replay_msg("wiki_notice")


def replay_start_page_resets(title, junk, n, st, sec, prev_title, same_title, clean_path):
    w = Wtp(quiet=True, quiet_output=True)
    w.add_page("Template:loop", 10, "{{loop}}")
    first = title if same_title else (prev_title or "Other")
    w.start_page(first)
    w.start_section("S")
    w.start_subsection("SS")
    w.expand("{{loop}}")  # records a warning
    had = len(w.warnings)
    w.start_page(title)
    bad = bool(w.errors or w.warnings or w.debugs or w.notes or w.wiki_notices) or w.section is not None or w.subsection is not None or w.expand_stack != [title]
    return (f"start_page({first!r}); start_section('S'); expand('{{{{loop}}}}') [{had} warning(s)]; start_page({title!r})", bad, f"after start_page: warnings={len(w.warnings)} section={w.section!r} subsection={w.subsection!r} path={w.expand_stack!r}")
