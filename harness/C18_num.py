"""C18 Ob2/Ob3: formatnum inversion for every shipped locale triple; plural selection (CrossHair).
Locale triples are re-read from data/*/localization.json by props/C18.py, which appends the conditions."""
import wikitextprocessor.parserfns as P
from wikitextprocessor import Wtp

ctx = Wtp(quiet=True, quiet_output=True)
ctx.start_page("T")
DIG = "0123456789"


class _CharSet:
    """Stub for the builtin set() inside parserfns (only `set(text) <= allowed_chars` is used there):
    same subset semantics, but without hashing the (symbolic) characters."""

    def __init__(self, s):
        self.s = s

    def __le__(self, other):
        allowed = "".join(sorted(other.s if isinstance(other, _CharSet) else other))
        return all(ch in allowed for ch in self.s)


P.set = _CharSet


def ident(x):
    return x


def set_locale(dec: str, sep: str, grouping) -> None:
    ctx.LOCALIZATION_DATA = {"decimal_point": dec, "grouping_separator": sep, "grouping_method": list(grouping)}
    ctx.LOCALIZATION_ALLOWED_REVERSABLE_NUMBER_CHARS = set(DIG + "-" + dec + sep + (" " if sep == "\xa0" else ""))


def roundtrip(x: str) -> bool:
    f = P.PARSER_FUNCTIONS["formatnum"](ctx, "formatnum", [x], ident)
    r = P.PARSER_FUNCTIONS["formatnum"](ctx, "formatnum", [f, "R"], ident)
    return r == x


def via_expand_roundtrip(x: str, dec: str, sep: str, grouping):
    c = Wtp(quiet=True, quiet_output=True)
    c.LOCALIZATION_DATA = {"decimal_point": dec, "grouping_separator": sep, "grouping_method": list(grouping)}
    c.LOCALIZATION_ALLOWED_REVERSABLE_NUMBER_CHARS = set(DIG + "-" + dec + sep + (" " if sep == "\xa0" else ""))
    c.start_page("T")
    f = c.expand("{{formatnum:" + x + "}}")
    r = c.expand("{{formatnum:" + f + "|R}}")
    return ("locale(decimal=%r, separator=%r, grouping=%r): expand('{{formatnum:%s}}') then |R" % (dec, sep, list(grouping), x), r != x, f"formatnum gives {f!r}, formatnum|R of that gives {r!r}, expected {x!r}")


def plural_ref(num: float) -> str:
    return "S" if num == 1 else "P"


def via_expand_plural(x: str, want: str):
    c = Wtp(quiet=True, quiet_output=True)
    c.start_page("T")
    got = c.expand("{{plural:" + x + "|S|P}}")
    return ("expand('{{plural:" + x + "|S|P}}')", got != want, f"plural selects {got!r}, the number selects {want!r}")
