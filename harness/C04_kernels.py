"""C04: template-expansion kernels (CrossHair): includable part of a template body, parameter substitution,
#if / #ifeq / #switch against the MediaWiki rules, automatic newline.  Conditions appended by props/C04.py."""
import ast
import os
import re

import wikitextprocessor.core as core
import wikitextprocessor.parserfns as P
from wikitextprocessor import Wtp
from wikitextprocessor.common import MAGIC_FIRST, add_newline_to_expansion
from vf import slicer

ctx = Wtp(quiet=True, quiet_output=True)
ctx.start_page("T")


def ident(x):
    return x


def pinned(s: str, at: int, lit: str) -> bool:
    for i in range(len(lit)):
        if s[at + i] != lit[i]:
            return False
    return True


# ---------------------------------------------------------------- Ob1 includable part (reference)
def includable(text: str) -> str:
    """MediaWiki transclusion rules, written as a scanner: comments vanish; <noinclude>...</noinclude> vanishes
    (an unclosed one swallows the rest); if <onlyinclude> sections exist only their contents count;
    <includeonly> tags are unwrapped."""
    out = []
    i = 0
    n = len(text)
    low = text.lower()
    # pass 1: comments and noinclude
    while i < n:
        if text.startswith("<!--", i):
            j = text.find("-->", i + 4)
            if j < 0:
                break
            i = j + 3
            continue
        m = re.match(r"<noinclude\s*>", low[i:])
        if m:
            m2 = re.search(r"</noinclude\s*>", low[i + m.end() :])
            if not m2:
                break
            i = i + m.end() + m2.end()
            continue
        out.append(text[i])
        i += 1
    t = "".join(out)
    onlys = list(re.finditer(r"(?is)<onlyinclude\s*>(.*?)</onlyinclude\s*>|<onlyinclude\s*/>", t))
    if onlys:
        t = "".join(m.group(1) or "" for m in onlys)
    return re.sub(r"(?is)<\s*(/\s*)?includeonly\s*(/\s*)?>", "", t)


def body_ok(text: str) -> bool:
    return ctx._template_to_body("T", text) == includable(text)


def replay_body(text):
    w = Wtp(quiet=True, quiet_output=True)
    w.add_page("Template:t", 10, "[" + text + "]")
    w.start_page("T")
    got = w.expand("{{t}}")
    w2 = Wtp(quiet=True, quiet_output=True)
    w2.add_page("Template:t", 10, "PLACEHOLDER")
    want_body = includable("[" + text + "]")
    w2.db_conn.execute("UPDATE pages SET body = ? WHERE title = 'Template:t'", (want_body,))
    type(w2).get_page.cache_clear()
    w2.start_page("T")
    want = w2.expand("{{t}}")
    return ("template body " + repr("[" + text + "]") + ": expand('{{t}}')", got != want, f"transcluded text {got!r}, includable part gives {want!r}")


# ---------------------------------------------------------------- Ob2 parameter substitution (AST slice of expand_args)
_tree = slicer.parse(core.__file__)
_ea = slicer.find(_tree, ast.FunctionDef, lambda n: n.name == "expand_args")
_g = {**vars(core), "self": ctx, "parent": None, "expand_recurse": lambda s, p, e: s}
EXPAND_ARGS, EA_SRC = slicer.closure(_ea, _g, f"core.py:{_ea.lineno}")
_g["expand_args"] = EXPAND_ARGS
ARGMAP = {1: "P1", 2: "P2", "a": "NA", "a b": "NAB"}


def norm_key(name: str):
    t = name.strip()
    if t.isdecimal() and int(t) > 0:
        return int(t)
    return re.sub(r"\s+", " ", t)


def param_ok(name: str, has_default: bool) -> bool:
    ctx.start_page("T")
    ctx.cookies = [("A", (name, "D") if has_default else (name,), False)]
    got = EXPAND_ARGS(chr(MAGIC_FIRST), dict(ARGMAP))
    k = norm_key(name)
    if k in ARGMAP:
        want = ARGMAP[k]
    elif has_default:
        want = "D"
    else:
        want = "{{{" + str(k) + "}}}"
    return got == want and ctx.expand_stack == ["T"]


def replay_param(name, has_default):
    w = Wtp(quiet=True, quiet_output=True)
    body = "{{{" + name + ("|D" if has_default else "") + "}}}"
    w.add_page("Template:t", 10, "[" + body + "]")
    w.start_page("T")
    got = w.expand("{{t|P1|P2|a=NA|a b=NAB}}")
    k = norm_key(name)
    want = "[" + (ARGMAP[k] if k in ARGMAP else ("D" if has_default else "{{{" + str(k) + "}}}")) + "]"
    return (f"template body {'[' + body + ']'!r}: expand('{{{{t|P1|P2|a=NA|a b=NAB}}}}')", got != want, f"result {got!r}, expected {want!r}")


# ---------------------------------------------------------------- Ob3 #if / #ifeq / #switch (MediaWiki algorithm, string comparison)
def r_if(args):
    a = (args + ["", "", ""])[:3]
    return a[1].strip() if a[0].strip() else a[2].strip()


def r_ifeq(args):
    a = (args + ["", "", "", ""])[:4]
    return a[2].strip() if a[0].strip() == a[1].strip() else a[3].strip()


def r_switch(args):
    """ParserFunctions::switch, with string comparison (numeric comparison: recorded finding)"""
    primary = args[0].strip() if args else ""
    found = False
    default_found = False
    default = None
    last_no_equals = False
    last_item = ""
    for arg in args[1:]:
        if "=" in arg:
            name, value = arg.split("=", 1)
            last_no_equals = False
            if found:
                return value.strip()
            test = name.strip()
            if test == primary:
                return value.strip()
            elif default_found:
                default = value
                default_found = False
            elif test.lower() == "#default":
                default = value
        else:
            last_no_equals = True
            last_item = arg.strip()
            if last_item == primary:
                found = True
            elif last_item.lower() == "#default":
                default_found = True
    if last_no_equals:
        return last_item
    if default is not None:
        return default.strip()
    return ""


def call(name, args):
    return P.PARSER_FUNCTIONS[name](ctx, name, list(args), ident)


def replay_fn(name, args, want):
    w = Wtp(quiet=True, quiet_output=True)
    w.start_page("T")
    doc = "{{" + name + ":" + "|".join(args) + "}}"
    got = w.expand(doc)
    return ("expand(" + repr(doc) + ")", got.strip() != want.strip(), f"result {got!r}, MediaWiki rule gives {want!r}")


# ---------------------------------------------------------------- Ob7 an argument passed as name=value is found by {{{name}}}
import C14_views as _V  # the expander's argument loop, AST-sliced (V2)


def bind_roundtrip(name: str) -> bool:
    """{{t|<name>=V}} with body {{{<name>}}}: the key under which the expander stores the argument (slice of the argument loop)
    is the key under which expand_args (slice) looks the reference up"""
    ht = _V.V2(_V._Self(), ("t", name + "=V"), None, lambda x, p, e: x)
    ctx.start_page("T")
    ctx.cookies = [("A", (name,), False)]
    return EXPAND_ARGS(chr(MAGIC_FIRST), dict(ht)) == "V"


def replay_bind(name):
    w = Wtp(quiet=True, quiet_output=True)
    w.add_page("Template:t", 10, "[{{{" + name + "}}}]")
    w.start_page("T")
    got = w.expand("{{t|" + name + "=V}}")
    return (f"template body {'[{{{' + name + '}}}]'!r}: expand({'{{t|' + name + '=V}}'!r})", got != "[V]", f"result {got!r}, expected '[V]'")


# ---------------------------------------------------------------- later duplicates win; positional numbering
def ref_bind(skel: str, names, values) -> dict:
    """MediaWiki: arguments are bound left to right; a named argument's key is the trimmed name (a positive numeral is the
    positional index), its value is trimmed; positional arguments are numbered 1, 2, ... independently of named ones and
    keep their whitespace; a later argument with the same key replaces an earlier one."""
    d, n, ni = {}, 0, 0
    for i, k in enumerate(skel):
        if k == "P":
            n += 1
            d[n] = values[i]
        else:
            nm = names[ni]
            ni += 1
            key = (1 if nm == "1" else 2) if nm in ("1", "2") else nm
            d[key] = values[i].strip()
    return d


def dup_binding_ok(skel: str, names, values) -> bool:
    args, ni = [], 0
    for i, k in enumerate(skel):
        if k == "P":
            args.append(values[i])
        else:
            args.append(names[ni] + "=" + values[i])
            ni += 1
    ht = _V.V2(_V._Self(), ("t",) + tuple(args), None, lambda x, p, e: x)
    return dict(ht) == ref_bind(skel, names, values)


def replay_dup_binding(skel, names, values):
    args, ni = [], 0
    for i, k in enumerate(skel):
        if k == "P":
            args.append(values[i])
        else:
            args.append(names[ni] + "=" + values[i])
            ni += 1
    w = Wtp(quiet=True, quiet_output=True)
    w.add_page("Template:t", 10, "<{{{a|-}}}|{{{b|-}}}|{{{1|-}}}|{{{2|-}}}|{{{3|-}}}>")
    w.start_page("T")
    doc = "{{t|" + "|".join(args) + "}}"
    got = w.expand(doc)
    d = ref_bind(skel, names, values)
    want = "<" + "|".join(str(d.get(k, "-")) for k in ("a", "b", 1, 2, 3)) + ">"
    return (f"template body '<{{{{{{a|-}}}}}}|{{{{{{b|-}}}}}}|{{{{{{1|-}}}}}}|{{{{{{2|-}}}}}}|{{{{{{3|-}}}}}}>': expand({doc!r})", got != want, f"result {got!r}, the binding rule (later duplicates win, positional numbering) gives {want!r}")


# ---------------------------------------------------------------- nesting the same template through an argument is not a loop
def replay_nested_same_template():
    """{{wrap|x={{wrap|x={{wrap|x=a}}}}}} is acyclic: every level must expand (the loop detector exempts repetitions that
    start at an argument-value frame, whatever the argument is called)"""
    w = Wtp(quiet=True, quiet_output=True)
    for key in ("x", "1", "long name", "2"):
        w.add_page("Template:wrap" + key.replace(" ", ""), 10, "({{{" + key + "}}})")
    for key in ("x", "1", "long name", "2"):
        name = "wrap" + key.replace(" ", "")
        for depth in (2, 3, 4, 5):
            doc = "a"
            for _ in range(depth):
                doc = "{{" + name + "|" + (key + "=" if key != "1" else "") + doc + "}}"
            w.start_page("T")
            got = w.expand(doc)
            want = "(" * depth + "a" + ")" * depth
            if got != want:
                return (f"Template:{name} = '({{{{{{{key}}}}}}})': expand({doc!r})", True, f"result {got!r}, expected {want!r}: an acyclic nesting of the same template through its argument is reported as a loop")
    return ("nested same-template documents", False, "")


# ---------------------------------------------------------------- trimming applies to the EXPANDED branch
def pad_expander(x):
    """an expander whose results carry blanks the raw text does not have (a template whose expansion is padded)"""
    return " " + x + " "


def call_padded(name, args):
    return P.PARSER_FUNCTIONS[name](ctx, name, list(args), pad_expander)


def r_if_padded(args):
    a = (args + ["", "", ""])[:3]
    return a[1].strip() if a[0].strip() else a[2].strip()


def replay_fn_padded(name, args, want):
    """through expand(): every argument is wrapped in a call of a template whose expansion is padded with blanks"""
    w = Wtp(quiet=True, quiet_output=True)
    w.add_page("Template:pad", 10, " {{{1}}} ")
    w.start_page("T")
    doc = "{{" + name + ":" + "|".join("{{pad|1=" + a + "}}" for a in args) + "}}"
    got = w.expand(doc)
    return ("Template:pad = ' {{{1}}} ': expand(" + repr(doc) + ")", got != want, f"result {got!r}, MediaWiki trims the expanded branch: {want!r}")


# ---------------------------------------------------------------- automatic newline applies to the RESULT of an expansion
NL_FIRST = ["*", "#", ":", ";", "{|", "a", " *"]
NL_SHAPES = ["wrap", "default", "outer", "literal", "named", "fn"]


def _nl(t: str) -> str:
    return ("\n" + t) if (t[:1] in ("*", ";", ":", "#") or t[:2] == "{|") else t


def _nl_case(shape: int, first: int, lead: bool):
    """(templates, document, expected expansion, template_fn or None): the marker reaches the start of the expansion by parameter substitution, by a
    default value, through a nested call, literally, through a named parameter, or from template_fn"""
    v = NL_FIRST[first] + "z"
    pre = "a" if lead else ""
    kind = NL_SHAPES[shape]
    if kind == "wrap":
        return {"w": "{{{1}}}"}, pre + "{{w|" + v + "}}", pre + _nl(v), None
    if kind == "default":
        return {"d": "{{{x|" + v + "}}} tail"}, pre + "{{d}}", pre + _nl(v + " tail"), None
    if kind == "outer":
        return {"w": "{{{1}}}", "o": "{{w|{{{1}}}}}!"}, pre + "{{o|" + v + "}}", pre + _nl(_nl(v) + "!"), None
    if kind == "literal":
        return {"l": v + "{{{1|}}}"}, pre + "{{l}}", pre + _nl(v), None
    if kind == "named":
        return {"n": "{{{k}}}"}, pre + "{{n|k=" + v + "}}", pre + _nl(v.strip()), None
    return {"f": "unused"}, pre + "{{f}}", pre + _nl(v), (lambda name, ht: v)


def _nl_bad(shape: int, first: int, lead: bool):
    if "|" in NL_FIRST[first] and NL_SHAPES[shape] not in ("literal", "fn"):
        return ("(a table marker cannot be written inside an argument)", False, "")
    tpl, doc, want, tf = _nl_case(shape, first, lead)
    w = Wtp(quiet=True, quiet_output=True)
    for k, b in tpl.items():
        w.add_page("Template:" + k, 10, b)
    w.start_page("T")
    got = w.expand(doc, template_fn=tf)
    lib = "; ".join(f"Template:{k} = {b!r}" for k, b in tpl.items())
    return (f"{lib}: expand({doc!r}" + (", template_fn=<returns " + repr(NL_FIRST[first] + "z") + ">" if tf else "") + ")", got != want, f"result {got!r}, expected {want!r} (a result that starts with a list/table marker gets a newline prepended)")


def _pick4(x, n: int) -> int:
    for v in range(n):
        if x == v:
            return v
    raise AssertionError("outside the precondition")


def nl_result_ok(shape, first, lead) -> bool:
    from crosshair.tracers import NoTracing, is_tracing

    if is_tracing():
        shape, first = _pick4(shape, len(NL_SHAPES)), _pick4(first, len(NL_FIRST))
        lead = True if lead else False
        with NoTracing():
            return not _nl_bad(shape, first, lead)[1]
    return not _nl_bad(shape, first, lead)[1]


def replay_nl_result(shape, first, lead):
    return _nl_bad(shape, first, lead)
