"""AST slicing: lift an inline loop / closure / expression out of the *current* source into a callable.

The slice is compiled from the file on disk at import time of the harness, so an edit to /repo
changes the code under analysis.  `SliceError` means the anchor is gone (-> not_encodable)."""
from __future__ import annotations

import ast
import re
import textwrap
from typing import Callable, Optional


class SliceError(Exception):
    pass


def parse(path: str) -> ast.Module:
    with open(path) as f:
        return ast.parse(f.read())


def find(tree: ast.AST, typ, pred: Callable[[ast.AST], bool]):
    hits = [n for n in ast.walk(tree) if isinstance(n, typ) and pred(n)]
    if len(hits) != 1:
        raise SliceError(f"expected exactly one {getattr(typ, '__name__', typ)} matching the anchor, found {len(hits)}")
    return hits[0]


def find_function(tree: ast.AST, name: str) -> ast.FunctionDef:
    return find(tree, ast.FunctionDef, lambda n: n.name == name)


def make_function(name: str, params: str, prologue: str, node_or_nodes, epilogue: str, globs: dict, tag: str):
    nodes = node_or_nodes if isinstance(node_or_nodes, list) else [node_or_nodes]
    body = "\n".join(ast.unparse(n) for n in nodes)
    src = f"def {name}({params}):\n" + textwrap.indent(prologue.rstrip() + "\n" if prologue.strip() else "", "    ") + textwrap.indent(body, "    ") + "\n" + textwrap.indent(epilogue, "    ") + "\n"
    ns = dict(globs)
    exec(compile(src, f"<slice {tag}>", "exec"), ns)
    return ns[name], src


def closure(fn: ast.FunctionDef, globs: dict, tag: str):
    """Compile a nested function definition on its own (free variables must be in globs)."""
    f2 = ast.FunctionDef(name=fn.name, args=fn.args, body=fn.body, decorator_list=[], returns=None, type_comment=None, lineno=fn.lineno, col_offset=0)
    if hasattr(f2, "type_params"):
        f2.type_params = []
    for a in ast.walk(f2.args):
        if isinstance(a, ast.arg):
            a.annotation = None
    src = ast.unparse(ast.fix_missing_locations(f2))
    ns = dict(globs)
    exec(compile(src, f"<slice {tag}>", "exec"), ns)
    return ns[fn.name], src


def loop_with_init(tree: ast.AST, loop: ast.For, max_init: int = 4):
    """The statements that initialise the loop's accumulators, taken from the real source: the run of simple assignments
    (`x = <literal / {} / [] / call-free expression>`, annotated or not) directly before `loop` in its enclosing block.
    Returns (nodes = init statements + [loop], name of the dict/list the loop fills via `NAME[...] = ...`)."""
    parent_body = None
    for n in ast.walk(tree):
        for field in ("body", "orelse", "finalbody"):
            b = getattr(n, field, None)
            if isinstance(b, list) and any(x is loop for x in b):
                parent_body = b
    if parent_body is None:
        raise SliceError("enclosing block of the loop not found")
    i = next(k for k, x in enumerate(parent_body) if x is loop)
    init = []
    j = i - 1
    while j >= 0 and len(init) < max_init:
        st = parent_body[j]
        ok = isinstance(st, ast.Assign) and len(st.targets) == 1 and isinstance(st.targets[0], ast.Name) or isinstance(st, ast.AnnAssign) and isinstance(st.target, ast.Name) and st.value is not None
        if not ok or any(isinstance(c, ast.Call) for c in ast.walk(st.value)):
            break
        if isinstance(st, ast.AnnAssign):  # drop the annotation (it may name types the slice's globals lack)
            st = ast.Assign(targets=[st.target], value=st.value, lineno=st.lineno, col_offset=0)
        init.insert(0, st)
        j -= 1
    inits = {s.targets[0].id for s in init}
    filled = [t.value.id for s in ast.walk(loop) if isinstance(s, ast.Assign) for t in s.targets if isinstance(t, ast.Subscript) and isinstance(t.value, ast.Name)]
    acc = next((f for f in filled if f in inits), None)
    if acc is None:
        raise SliceError("the loop's accumulator (NAME[...] = ... with NAME initialised before the loop) not found")
    return [ast.fix_missing_locations(s) for s in init] + [loop], acc


def closure_factory(outer: ast.FunctionDef, inner: ast.FunctionDef, globs: dict, tag: str):
    """A factory `make()` that re-creates a nested function together with the state it closes over: the simple assignments
    of the enclosing function that precede the definition (`cache = {}`, `limit = 3`; anything that calls a function other
    than a container constructor is left out) are executed first, then the def, and the function object is returned.
    Each call of make() gives a fresh closure (fresh captured state)."""
    pre = []
    for st in outer.body:
        if st is inner:
            break
        ok = isinstance(st, ast.Assign) and len(st.targets) == 1 and isinstance(st.targets[0], ast.Name) or isinstance(st, ast.AnnAssign) and isinstance(st.target, ast.Name) and st.value is not None
        if not ok:
            continue
        calls = [c for c in ast.walk(st.value) if isinstance(c, ast.Call)]
        if any(not (isinstance(c.func, ast.Name) and c.func.id in ("dict", "list", "set", "frozenset", "tuple", "defaultdict", "deque", "OrderedDict")) for c in calls):
            continue
        if isinstance(st, ast.AnnAssign):
            st = ast.Assign(targets=[st.target], value=st.value, lineno=st.lineno, col_offset=0)
        pre.append(st)
    f2 = ast.FunctionDef(name=inner.name, args=inner.args, body=inner.body, decorator_list=[], returns=None, type_comment=None, lineno=inner.lineno, col_offset=0)
    if hasattr(f2, "type_params"):
        f2.type_params = []
    for a in ast.walk(f2.args):
        if isinstance(a, ast.arg):
            a.annotation = None
    body = "\n".join(ast.unparse(ast.fix_missing_locations(s)) for s in pre + [f2])
    src = "def make():\n" + textwrap.indent(body, "    ") + f"\n    return {inner.name}\n"
    ns = dict(globs)
    exec(compile(src, f"<slice {tag}>", "exec"), ns)
    return ns["make"], src
