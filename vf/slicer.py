"""AST slicing: lift an inline loop / closure / expression out of the *current* source into a callable.

The slice is compiled from the file on disk at import time of the harness, so an edit to /repo
changes the code under analysis.  `SliceError` means the anchor is gone (-> not_encodable)."""
from __future__ import annotations

import ast
import re
import textwrap
from typing import Callable, Optional


class SliceError(Exception):
    pass


def parse(path: str) -> ast.Module:
    with open(path) as f:
        return ast.parse(f.read())


def find(tree: ast.AST, typ, pred: Callable[[ast.AST], bool]):
    hits = [n for n in ast.walk(tree) if isinstance(n, typ) and pred(n)]
    if len(hits) != 1:
        raise SliceError(f"expected exactly one {getattr(typ, '__name__', typ)} matching the anchor, found {len(hits)}")
    return hits[0]


def find_function(tree: ast.AST, name: str) -> ast.FunctionDef:
    return find(tree, ast.FunctionDef, lambda n: n.name == name)


def make_function(name: str, params: str, prologue: str, node_or_nodes, epilogue: str, globs: dict, tag: str):
    nodes = node_or_nodes if isinstance(node_or_nodes, list) else [node_or_nodes]
    body = "\n".join(ast.unparse(n) for n in nodes)
    src = f"def {name}({params}):\n" + textwrap.indent(prologue.rstrip() + "\n" if prologue.strip() else "", "    ") + textwrap.indent(body, "    ") + "\n" + textwrap.indent(epilogue, "    ") + "\n"
    ns = dict(globs)
    exec(compile(src, f"<slice {tag}>", "exec"), ns)
    return ns[name], src


def closure(fn: ast.FunctionDef, globs: dict, tag: str):
    """Compile a nested function definition on its own (free variables must be in globs)."""
    f2 = ast.FunctionDef(name=fn.name, args=fn.args, body=fn.body, decorator_list=[], returns=None, type_comment=None, lineno=fn.lineno, col_offset=0)
    if hasattr(f2, "type_params"):
        f2.type_params = []
    for a in ast.walk(f2.args):
        if isinstance(a, ast.arg):
            a.annotation = None
    src = ast.unparse(ast.fix_missing_locations(f2))
    ns = dict(globs)
    exec(compile(src, f"<slice {tag}>", "exec"), ns)
    return ns[fn.name], src
