"""Shared plumbing: tiers, obligations, evidence files, known findings, violation lines."""
from __future__ import annotations

import dataclasses
import hashlib
import json
import os
import sys
import time
from typing import Any, Callable, Optional

VERIF = os.path.dirname(os.path.dirname(os.path.abspath(__file__)))
REPO = os.environ.get("VERIF_REPO", "/repo")
SRC = os.path.join(REPO, "src", "wikitextprocessor")
GEN = os.environ.get("VERIF_GEN") or os.path.join(VERIF, ".gen")
OUT = os.environ.get("VERIF_OUT") or VERIF  # evidence/ and replays/ live here (overridden only by tools/seedmatrix.sh)
JOBS = int(os.environ.get("VERIF_JOBS", "16"))


def tier() -> str:
    t = os.environ.get("VERIF_TIER", "quick")
    return t if t in ("quick", "thorough") else "quick"


def distrust() -> bool:
    """VERIF_DISTRUST_FACTS=1 (self-test of the machinery, never used by a registered command): obligations that are decided by
    a fact about the source run their replay even though the fact holds.  On a tree where the property holds every such
    replay must end 'inconclusive' - a VIOLATION would be a wrong expectation in the replay, i.e. a false alarm waiting for a
    behaviour-preserving refactoring."""
    return bool(os.environ.get("VERIF_DISTRUST_FACTS"))


def seed() -> int:
    try:
        return int(os.environ.get("VERIF_SEED", "0"))
    except ValueError:
        return 0


# verdicts of an obligation
DISCHARGED = "discharged"  # solver: holds for every value within the bound
VIOLATED = "violated"  # solver counterexample, replayed on the real code
KNOWN = "known-finding"  # replayed violation listed in known_findings.json
INCONCLUSIVE = "inconclusive"  # timeout / unknown / non-reproducing model
VACUOUS = "vacuous"  # reachability twin not refuted
NOT_ENCODABLE = "not_encodable"  # anchor not found in the current source
EXPLORED = "explored-no-counterexample"  # bug-hunting only (not exhausted)


@dataclasses.dataclass
class Ob:
    name: str
    engine: str
    functions: list[str]
    bounds: str
    verdict: str = INCONCLUSIVE
    queries: int = 0  # solver check() calls
    paths: int = 0  # symbolic paths (CrossHair iterations) or SMT queries
    solver_s: float = 0.0
    cpu_s: float = 0.0
    detail: str = ""
    samples: list = dataclasses.field(default_factory=list)
    conditions: int = 0
    confirmed_conditions: int = 0

    def as_dict(self) -> dict:
        d = dataclasses.asdict(self)
        d["solver_s"] = round(self.solver_s, 3)
        d["cpu_s"] = round(self.cpu_s, 3)
        return d


@dataclasses.dataclass
class Violation:
    signature: str  # the replay input, stable text
    what: str
    replay: dict  # everything needed to re-run it
    known: Optional[str] = None


class Report:
    def __init__(self, pid: str, level: str = "other"):
        self.pid = pid
        self.level = level
        self.obs: list[Ob] = []
        self.violations: list[Violation] = []
        self.assumptions: list[str] = []
        self.trusted: list[str] = []
        self.explanation = ""
        self.outside: list[str] = []
        self.t0 = time.time()
        self.extra: dict[str, Any] = {}
        self.harness_errors: list[str] = []

    def add(self, ob: Ob) -> Ob:
        self.obs.append(ob)
        return ob

    def violation(self, signature: str, what: str, replay: dict) -> Violation:
        for v in self.violations:
            if v.signature == signature:
                return v
        v = Violation(signature, what, replay)
        v.known = known_lookup(self.pid, signature)
        self.violations.append(v)
        return v


_known_cache = None


def known_findings() -> list[dict]:
    global _known_cache
    if _known_cache is None:
        p = os.path.join(VERIF, "known_findings.json")
        try:
            with open(p) as f:
                _known_cache = json.load(f).get("findings", [])
        except FileNotFoundError:
            _known_cache = []
    return _known_cache


def known_lookup(pid: str, signature: str) -> Optional[str]:
    """Only entries with status 'open' suppress; 'fixed' entries suppress nothing."""
    for k in known_findings():
        if k.get("status", "open") != "open":
            continue
        if k.get("property") == pid and k.get("signature") == signature:
            return k.get("what", "")
    return None


def write_replay(pid: str, v: Violation) -> str:
    os.makedirs(os.path.join(OUT, "replays"), exist_ok=True)
    h = hashlib.sha1(v.signature.encode("utf-8", "replace")).hexdigest()[:10]
    path = os.path.join(OUT, "replays", f"{pid}-{h}.json")
    with open(path, "w") as f:
        json.dump({"property": pid, "signature": v.signature, "what": v.what, "replay": v.replay}, f, indent=1, ensure_ascii=True, default=repr)
    return path


def finish(rep: Report) -> int:
    """Write evidence, print KNOWN-FINDING / VIOLATION lines, return exit code."""
    wall = time.time() - rep.t0
    n_ob = len(rep.obs)
    n_dis = sum(1 for o in rep.obs if o.verdict == DISCHARGED)
    queries = sum(o.queries for o in rep.obs)
    paths = sum(o.paths for o in rep.obs)
    conds = sum(max(o.conditions, 1) for o in rep.obs)
    nontrivial = sum(o.confirmed_conditions if o.conditions else (1 if o.verdict in (DISCHARGED, VIOLATED, KNOWN) else 0) for o in rep.obs)
    samples: list = []
    for o in rep.obs:
        for s in o.samples[:3]:
            samples.append({"obligation": o.name, "case": s})
    if not samples:
        samples = [{"obligation": o.name, "bounds": o.bounds} for o in rep.obs[:5]] or ["(no obligation ran)"]
    new = [v for v in rep.violations if v.known is None]
    ev = {
        "property_id": rep.pid,
        "tier": tier(),
        "seed": seed(),
        "level": rep.level,
        "coverage": {
            "explanation": rep.explanation,
            "obligations": n_ob,
            "discharged": n_dis,
            "evaluations": max(conds, 1),
            "distinct_nontrivial": nontrivial,
            "rule": "evaluations = solver-checked conditions (CrossHair conditions or z3 queries); distinct_nontrivial = those that ended in a definite solver verdict (confirmed over all paths / unsat, or counterexample) - inconclusive and vacuous ones are not counted",
            "solver_queries": queries,
            "symbolic_paths": paths,
            "solver_s": round(sum(o.solver_s for o in rep.obs), 2),
            "cpu_s": round(sum(o.cpu_s for o in rep.obs), 2),
            "samples": samples[:40],
            "exhaustive": False,
            "obligation_table": [o.as_dict() for o in rep.obs],
            "outside_claim": rep.outside,
            "trusted_base": rep.trusted,
            "harness_errors": rep.harness_errors,
            **rep.extra,
        },
        "assumptions": rep.assumptions,
        "wall_s": round(wall, 2),
        "violations": len(new),
        "known_findings_hit": [v.signature for v in rep.violations if v.known is not None],
    }
    os.makedirs(os.path.join(OUT, "evidence"), exist_ok=True)
    # <id>.json is the evidence of the most recent run; a copy per tier is kept so that a thorough run's record survives the
    # next quick run
    for name in (rep.pid + ".json", f"{rep.pid}.{tier()}.json"):
        with open(os.path.join(OUT, "evidence", name), "w") as f:
            json.dump(ev, f, indent=1, ensure_ascii=True, default=repr)
    for o in rep.obs:
        print(f"[{rep.pid}] {o.name}: {o.verdict} (conditions={o.conditions} confirmed={o.confirmed_conditions} paths={o.paths} queries={o.queries} solver_s={o.solver_s:.1f}) {o.detail[:300]}")
    for v in rep.violations:
        if v.known is not None:
            print(f"KNOWN-FINDING: property={rep.pid} {v.signature} :: {v.known}")
    for v in new:
        path = write_replay(rep.pid, v)
        print(f"[{rep.pid}] violation: {v.what} :: {v.signature}")
        print(f"VIOLATION property={rep.pid} replay={path}")
    sys.stdout.flush()
    if new:
        return 1
    if rep.harness_errors:
        for e in rep.harness_errors:
            print(f"[{rep.pid}] HARNESS-ERROR {e}", file=sys.stderr)
        return 2
    return 0
