"""E3 - AST path encoder.

A function body from the *current* source is turned into z3 terms: every `if`/loop-entry/
exception point gets a fresh Bool (the branch outcome is a symbolic input), user-defined integer
counters (e.g. depth of `expand_stack`) are threaded through as `If`-terms, and every exit
(return / continue / break / end of loop body / fall-through) and every probe point yields a
(guard, counters) pair.  Queries over those pairs are discharged by z3: unsat means "no syntactic
path does this", for inputs of any size.  Because branch conditions are uninterpreted, a sat answer
may be an infeasible path: callers must replay before reporting.

Modelled control flow: if/elif/else, for/while (+else, break, continue), with, try/except/else/
finally (an exception may leave the try body after any of its top-level statements, or inside a
nested statement at that statement's entry state; `raise` transfers to the handlers; finally bodies
are applied to return/break/continue leaving the try), return, raise (ends the path), nested
function definitions are separate regions (analysed on their own).  Calls are assumed to leave the
counters unchanged unless `delta` says otherwise (callee-balanced hypothesis).
Not modelled: `match`, generators' resumption, exceptions escaping the function (property speaks of
calls that return), conditional expressions / comprehensions / lambdas containing counted events -
`uses_unsupported()` reports those so that the caller can answer not_encodable.
"""
from __future__ import annotations

import ast
import itertools
from typing import Callable, Optional

import z3

Counters = dict  # name -> z3 Int term


class Exit:
    def __init__(self, kind: str, line: int, guard, counters: Counters, base: Optional[Counters] = None, label: str = ""):
        self.kind, self.line, self.guard, self.counters, self.base, self.label = kind, line, guard, counters, base, label


class Encoder:
    def __init__(
        self,
        fn: ast.FunctionDef,
        counters: list[str],
        delta: Callable[[ast.AST], dict],
        branch: Optional[Callable[[ast.AST, bool], dict]] = None,
        probe: Optional[Callable[[ast.stmt], Optional[str]]] = None,
        restore: Optional[tuple[str, Callable[[ast.AST], bool]]] = None,
    ):
        """delta(node) -> {counter: int} for an expression-level node (called on every sub-node of a
        simple statement); branch(test, polarity) -> {counter: int}; probe(stmt) -> label or None.
        restore = (counter, is_len_expr): enables the `X = len(stack)` ... `while len(stack) > X: pop()` pattern.
        """
        self.fn, self.names = fn, counters
        self.delta_cb, self.branch_cb, self.probe_cb, self.restore = delta, branch, probe, restore
        self.n = itertools.count()
        self.exits: list[Exit] = []
        self.probes: list[Exit] = []
        self.saved: dict[str, object] = {}  # variable name -> z3 term of the counter when saved
        self.bools: list = []
        self.notes: list[str] = []

    # -- helpers
    def fresh(self, line: int, what: str = "b"):
        b = z3.Bool(f"{what}{line}_{next(self.n)}")
        self.bools.append(b)
        return b

    def zero(self) -> Counters:
        return {k: z3.IntVal(0) for k in self.names}

    def stmt_delta(self, s: ast.AST, d: Counters) -> Counters:
        out = dict(d)
        for sub in _walk_no_defs(s):
            dd = self.delta_cb(sub)
            if dd:
                for k, v in dd.items():
                    out[k] = out[k] + v
        return out

    @staticmethod
    def merge(g1, d1: Counters, g2, d2: Counters):
        return z3.Or(g1, g2), {k: z3.If(g1, d1[k], d2[k]) for k in d1}

    # -- statements
    def block(self, stmts, g, d: Counters, ctx: dict):
        """ctx: loop (dict or None), fin (list of finalbodies, innermost last), handlers (list collecting exception snapshots)"""
        for s in stmts:
            if ctx.get("exc") is not None:
                ctx["exc"].append((g, d))  # an exception may be raised by this statement at its entry state
            if isinstance(s, (ast.FunctionDef, ast.AsyncFunctionDef, ast.ClassDef)):
                continue
            if self.probe_cb is not None:
                lab = self.probe_cb(s)
                if lab:
                    self.probes.append(Exit("probe", s.lineno, g, d, label=lab))
            if isinstance(s, ast.If):
                c = self.fresh(s.lineno)
                dt = self._branch(s.test, True, self.stmt_delta(s.test, d))
                df = self._branch(s.test, False, self.stmt_delta(s.test, d))
                g1, d1 = self.block(s.body, z3.And(g, c), dt, ctx)
                g2, d2 = self.block(s.orelse, z3.And(g, z3.Not(c)), df, ctx)
                g, d = self.merge(g1, d1, g2, d2)
            elif isinstance(s, (ast.For, ast.AsyncFor, ast.While)):
                g, d = self.loop(s, g, d, ctx)
            elif isinstance(s, (ast.With, ast.AsyncWith)):
                for it in s.items:
                    d = self.stmt_delta(it.context_expr, d)
                g, d = self.block(s.body, g, d, ctx)
            elif isinstance(s, ast.Try) or (hasattr(ast, "TryStar") and isinstance(s, ast.TryStar)):
                g, d = self.try_(s, g, d, ctx)
            elif isinstance(s, ast.Return):
                d = self.stmt_delta(s, d)
                g2, d2 = self.run_finals(g, d, ctx, upto=None)
                self.exits.append(Exit("return", s.lineno, g2, d2))
                g = z3.BoolVal(False)
            elif isinstance(s, (ast.Continue, ast.Break)):
                lp = ctx.get("loop")
                g2, d2 = self.run_finals(g, d, ctx, upto=lp["fin_depth"] if lp else None)
                if lp is None:
                    self.notes.append(f"{type(s).__name__} outside loop at {s.lineno}")
                elif isinstance(s, ast.Continue):
                    self.exits.append(Exit("continue", s.lineno, g2, d2, base=lp["base"]))
                else:
                    lp["breaks"].append((g2, d2))
                g = z3.BoolVal(False)
            elif isinstance(s, ast.Raise):
                if ctx.get("exc") is not None:
                    ctx["exc"].append((g, d))
                g = z3.BoolVal(False)
            elif isinstance(s, ast.Assign) and self.restore and len(s.targets) == 1 and isinstance(s.targets[0], ast.Name) and self.restore[1](s.value):
                self.saved[s.targets[0].id] = d[self.restore[0]]
            elif self.restore and self.is_del_restore(s):
                # `del stack[X:]` with X = the saved length: same effect as `while len(stack) > X: stack.pop()`
                sv = self.saved[s.targets[0].slice.lower.id]
                d = dict(d)
                d[self.restore[0]] = z3.If(d[self.restore[0]] > sv, sv, d[self.restore[0]])
            elif hasattr(ast, "Match") and isinstance(s, ast.Match):
                self.notes.append(f"match statement at {s.lineno} not modelled")
                d = self.stmt_delta(s, d)
            else:
                d = self.stmt_delta(s, d)
        return g, d

    def _branch(self, test, pol: bool, d: Counters) -> Counters:
        if self.branch_cb is None:
            return d
        dd = self.branch_cb(test, pol)
        if not dd:
            return d
        out = dict(d)
        for k, v in dd.items():
            out[k] = out[k] + v
        return out

    def run_finals(self, g, d, ctx, upto):
        fins = ctx.get("fin", [])
        lo = 0 if upto is None else upto
        for i in range(len(fins) - 1, lo - 1, -1):
            sub = dict(ctx)
            sub["fin"] = fins[:i]
            sub["exc"] = None
            g, d = self.block(fins[i], g, d, sub)
        return g, d

    def is_del_restore(self, s) -> bool:
        if not (isinstance(s, ast.Delete) and len(s.targets) == 1 and isinstance(s.targets[0], ast.Subscript)):
            return False
        t = s.targets[0]
        sl = t.slice
        if not (isinstance(sl, ast.Slice) and sl.upper is None and sl.step is None and isinstance(sl.lower, ast.Name) and sl.lower.id in self.saved):
            return False
        # the subscripted object must be the stack the len() of which was saved: is_len(len(<obj>))
        probe = ast.Call(func=ast.Name(id="len", ctx=ast.Load()), args=[t.value], keywords=[])
        return bool(self.restore[1](probe))

    def loop(self, s, g, d, ctx):
        # restore pattern: while len(stack) > X: stack.pop()
        if isinstance(s, ast.While) and self.restore:
            cname, is_len = self.restore
            t = s.test
            if isinstance(t, ast.Compare) and len(t.ops) == 1 and isinstance(t.ops[0], ast.Gt) and is_len(t.left) and isinstance(t.comparators[0], ast.Name) and t.comparators[0].id in self.saved:
                body_d = self.stmt_delta(ast.Module(body=s.body, type_ignores=[]), self.zero())
                simple = all(isinstance(x, ast.Expr) for x in s.body)
                if simple and z3.simplify(body_d[cname]).as_long() == -1:
                    sv = self.saved[t.comparators[0].id]
                    d = dict(d)
                    d[cname] = z3.If(d[cname] > sv, sv, d[cname])
                    return g, d
        if isinstance(s, (ast.For, ast.AsyncFor)):
            d = self.stmt_delta(s.iter, d)
        else:
            d = self.stmt_delta(s.test, d)
        entered = self.fresh(s.lineno, "loop")
        lp = {"base": d, "breaks": [], "fin_depth": len(ctx.get("fin", []))}
        sub = dict(ctx)
        sub["loop"] = lp
        gi, di = self.block(s.body, z3.And(g, entered), d, sub)
        self.exits.append(Exit("loop-body-end", s.body[-1].end_lineno, gi, di, base=d))
        # after the loop: normal termination at base depth (per-iteration balance is an obligation)
        go, do = g, d
        if s.orelse:
            go, do = self.block(s.orelse, go, do, ctx)
        for gb, db in lp["breaks"]:
            go, do = self.merge(gb, db, go, do)
        return go, do

    def try_(self, s, g, d, ctx):
        fin = list(ctx.get("fin", []))
        sub = dict(ctx)
        if s.finalbody:
            sub["fin"] = fin + [s.finalbody]
        snaps: list = []
        body_ctx = dict(sub)
        body_ctx["exc"] = snaps if s.handlers else (ctx.get("exc"))
        gb, db = self.block(s.body, g, d, body_ctx)
        if s.handlers:
            snaps.append((gb, db))  # the last statement may raise after its effects
        if s.orelse:
            gb, db = self.block(s.orelse, gb, db, sub)
        outs = [(gb, db)]
        if s.handlers and snaps:
            # entry state of a handler: any snapshot, selected by fresh bools
            ge, de = z3.BoolVal(False), self.zero()
            for (gs, ds) in snaps:
                pick = self.fresh(s.lineno, "exc")
                ge, de = self.merge(z3.And(gs, pick), ds, ge, de)
            for h in s.handlers:
                hsel = self.fresh(h.lineno, "h")
                gh, dh = self.block(h.body, z3.And(ge, hsel), de, sub)
                outs.append((gh, dh))
        go, do = outs[0]
        for gx, dx in outs[1:]:
            go, do = self.merge(gx, dx, go, do)
        if s.finalbody:
            go, do = self.block(s.finalbody, go, do, ctx)
        return go, do

    def run(self):
        g, d = self.block(self.fn.body, z3.BoolVal(True), self.zero(), {"loop": None, "fin": [], "exc": None})
        self.exits.append(Exit("fallthrough", self.fn.end_lineno, g, d))
        return self


def _walk_no_defs(node):
    """ast.walk that does not descend into nested function/class definitions or lambdas."""
    todo = [node]
    while todo:
        n = todo.pop()
        yield n
        for c in ast.iter_child_nodes(n):
            if isinstance(c, (ast.FunctionDef, ast.AsyncFunctionDef, ast.ClassDef, ast.Lambda)):
                continue
            todo.append(c)


def uses_unsupported(fn: ast.FunctionDef, is_event: Callable[[ast.AST], bool]) -> list[str]:
    """Events inside conditional expressions, boolean short-circuits, comprehensions or lambdas."""
    bad = []
    for n in _walk_no_defs(fn):
        if isinstance(n, (ast.IfExp, ast.BoolOp, ast.ListComp, ast.SetComp, ast.DictComp, ast.GeneratorExp)):
            for sub in ast.walk(n):
                if sub is not n and is_event(sub):
                    bad.append(f"{type(n).__name__}@{n.lineno}")
    for n in ast.walk(fn):
        if isinstance(n, ast.Lambda):
            for sub in ast.walk(n):
                if is_event(sub):
                    bad.append(f"Lambda@{n.lineno}")
    return bad


def functions(tree: ast.AST):
    """All function definitions (nested ones too) with a dotted path."""
    out = []

    def rec(node, path):
        for c in ast.iter_child_nodes(node):
            if isinstance(c, (ast.FunctionDef, ast.AsyncFunctionDef)):
                out.append((path + [c.name], c))
                rec(c, path + [c.name])
            elif isinstance(c, ast.ClassDef):
                rec(c, path + [c.name])
            else:
                rec(c, path)

    rec(tree, [])
    return out


def directly_contains(fn: ast.FunctionDef, pred: Callable[[ast.AST], bool]) -> bool:
    for s in fn.body:
        for n in _walk_no_defs(s):
            if pred(n):
                return True
    return False


def model_path(m: z3.ModelRef, enc: Encoder) -> list[str]:
    """Branch choices of a model, as readable text (line numbers of the `if`s taken)."""
    out = []
    for b in enc.bools:
        v = m.eval(b, model_completion=False)
        if z3.is_true(v):
            out.append(str(b) + "=T")
        elif z3.is_false(v):
            out.append(str(b) + "=F")
    return out
