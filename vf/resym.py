"""E2 - Python `re` patterns -> z3 regular expressions (sequence theory, no length bound).

The translation works on the sre parse tree of the *live* pattern (pattern strings taken from the
imported modules or from string literals in the current AST).  Supported: literals, classes, ranges,
categories (\\d \\s \\w and negations, ASCII semantics + the Unicode whitespace/digit code points
listed below for \\s), `.`, branches, (non-)capturing groups, greedy/lazy/possessive repeats (the
*language* is the same), IGNORECASE (ASCII case folding of literals/ranges), anchors ^/$/\\A/\\Z at
the ends (fullmatch framing is the caller's business), \\b as marker literal MARK (see DESIGN 1.2).
Unsupported (-> Unsupported raised, obligation not_encodable): look-around, back-references,
conditional groups, MULTILINE anchors in the middle of a pattern.
"""
from __future__ import annotations

import re

try:
    import re._constants as K
    import re._parser as sre_parse
except ImportError:  # pragma: no cover
    import sre_constants as K
    import sre_parse

import z3

MARK = "\x01"


class Unsupported(Exception):
    pass


_S = z3.StringSort()
_RS = z3.ReSort(_S)
ALLCH = z3.AllChar(_RS)
ANYSTAR = z3.Star(ALLCH)
EMPTY = z3.Re("")
# \s for str patterns: ASCII whitespace + the Unicode spaces that str.isspace() accepts (BMP)
_WS = " \t\n\r\f\v\x1c\x1d\x1e\x1f\x85\xa0\u1680\u2000\u2001\u2002\u2003\u2004\u2005\u2006\u2007\u2008\u2009\u200a\u2028\u2029\u202f\u205f\u3000"


def _rng(a: int, b: int):
    return z3.Range(chr(a), chr(b)) if a != b else z3.Re(chr(a))


def _union(parts):
    parts = list(parts)
    if not parts:
        return z3.Empty(_RS)
    return parts[0] if len(parts) == 1 else z3.Union(*parts)


def _neg(r):
    # the complement of a character set never contains the artificial word-boundary marker (MARK stands for \b, it is not
    # a character of any input): otherwise `[^x]+` could swallow a boundary and invent matches
    return z3.Intersect(ALLCH, z3.Complement(r), z3.Complement(z3.Re(MARK)))


NOMARK = None  # set below: all strings without the artificial \\b marker


def _category(c, ascii_only: bool):
    if c == K.CATEGORY_DIGIT:
        return _rng(48, 57)  # Unicode Nd beyond ASCII is not modelled (stated approximation)
    if c == K.CATEGORY_NOT_DIGIT:
        return _neg(_rng(48, 57))
    if c == K.CATEGORY_SPACE:
        return _union(z3.Re(x) for x in (" \t\n\r\f\v" if ascii_only else _WS))
    if c == K.CATEGORY_NOT_SPACE:
        return _neg(_category(K.CATEGORY_SPACE, ascii_only))
    if c == K.CATEGORY_WORD:
        return _union([_rng(48, 57), _rng(65, 90), _rng(97, 122), z3.Re("_")])
    if c == K.CATEGORY_NOT_WORD:
        return _neg(_category(K.CATEGORY_WORD, ascii_only))
    raise Unsupported(f"category {c}")


def _lit(ch: int, icase: bool):
    c = chr(ch)
    if icase and c.lower() != c.upper():
        return z3.Union(z3.Re(c.lower()), z3.Re(c.upper()))
    return z3.Re(c)


def _range_ic(a: int, b: int, icase: bool):
    r = _rng(a, b)
    if not icase:
        return r
    parts = [r]
    # ASCII case folding only
    lo, hi = max(a, 65), min(b, 90)
    if lo <= hi:
        parts.append(_rng(lo + 32, hi + 32))
    lo, hi = max(a, 97), min(b, 122)
    if lo <= hi:
        parts.append(_rng(lo - 32, hi - 32))
    return _union(parts)


def _in(items, flags):
    icase = bool(flags & re.I)
    ascii_only = bool(flags & re.A)
    neg = False
    parts = []
    for op, av in items:
        if op == K.NEGATE:
            neg = True
        elif op == K.LITERAL:
            parts.append(_lit(av, icase))
        elif op == K.RANGE:
            parts.append(_range_ic(av[0], av[1], icase))
        elif op == K.CATEGORY:
            parts.append(_category(av, ascii_only))
        else:
            raise Unsupported(f"class item {op}")
    u = _union(parts)
    return _neg(u) if neg else u


def _seq(seq, flags, top=False):
    out = []
    n = len(seq)
    for i, (op, av) in enumerate(seq):
        if op == K.LITERAL:
            out.append(_lit(av, bool(flags & re.I)))
        elif op == K.NOT_LITERAL:
            out.append(_neg(_lit(av, bool(flags & re.I))))
        elif op == K.ANY:
            out.append(_neg(z3.Empty(_RS)) if flags & re.S else _neg(z3.Re("\n")))
        elif op == K.IN:
            out.append(_in(av, flags))
        elif op == K.BRANCH:
            out.append(_union(_seq(b, flags) for b in av[1]))
        elif op == K.SUBPATTERN:
            add, dele = av[1], av[2]
            out.append(_seq(av[3], (flags | add) & ~dele))
        elif op in (K.MAX_REPEAT, K.MIN_REPEAT) or (hasattr(K, "POSSESSIVE_REPEAT") and op == K.POSSESSIVE_REPEAT):
            lo, hi, sub = av
            r = _seq(sub, flags)
            if hi == K.MAXREPEAT:
                if lo == 0:
                    out.append(z3.Star(r))
                elif lo == 1:
                    out.append(z3.Plus(r))
                else:
                    out.append(z3.Concat(z3.Loop(r, lo, lo), z3.Star(r)))
            else:
                out.append(z3.Loop(r, lo, hi))
        elif hasattr(K, "ATOMIC_GROUP") and op == K.ATOMIC_GROUP:
            out.append(_seq(av, flags))
        elif op == K.AT:
            if av in (K.AT_BOUNDARY,):
                out.append(z3.Re(MARK))
            elif av in (K.AT_BEGINNING, K.AT_BEGINNING_STRING):
                if flags & re.M and av == K.AT_BEGINNING and not (top and i == 0):
                    raise Unsupported("MULTILINE ^ inside pattern")
                if not (i == 0):
                    raise Unsupported("^ not at start of a (sub)pattern")
            elif av in (K.AT_END, K.AT_END_STRING):
                if i != n - 1:
                    raise Unsupported("$ not at end")
                if av == K.AT_END and not flags & re.M:
                    out.append(z3.Option(z3.Re("\n")))  # $ also matches before a trailing newline
                elif av == K.AT_END:
                    raise Unsupported("MULTILINE $")
            else:
                raise Unsupported(f"anchor {av}")
        elif op == K.CATEGORY:
            out.append(_category(av, bool(flags & re.A)))
        else:
            raise Unsupported(f"regex op {op}")
    if not out:
        return EMPTY
    return out[0] if len(out) == 1 else z3.Concat(*out)


def to_z3(pattern, flags: int = 0):
    """Language of `pattern` as a z3 regex (anchors at the ends are dropped: use with fullmatch framing)."""
    if isinstance(pattern, re.Pattern):
        flags |= pattern.flags
        pattern = pattern.pattern
    p = sre_parse.parse(pattern, flags)
    return _seq(p, p.state.flags | flags, top=True)


def anchored(pattern, flags: int = 0):
    """(starts_with_caret, ends_with_dollar) of a pattern - for callers modelling re.match / re.search."""
    if isinstance(pattern, re.Pattern):
        flags |= pattern.flags
        pattern = pattern.pattern
    p = sre_parse.parse(pattern, flags)
    items = list(p)
    a = bool(items) and items[0][0] == K.AT and items[0][1] in (K.AT_BEGINNING, K.AT_BEGINNING_STRING)
    b = bool(items) and items[-1][0] == K.AT and items[-1][1] in (K.AT_END, K.AT_END_STRING)
    return a, b


def match_lang(pattern, flags: int = 0):
    """Language of strings s with re.match(pattern, s) is not None  (prefix match)."""
    r = to_z3(pattern, flags)
    _, end = anchored(pattern, flags)
    return r if end else z3.Concat(r, ANYSTAR)


def search_lang(pattern, flags: int = 0):
    r = to_z3(pattern, flags)
    st, end = anchored(pattern, flags)
    left = r if st else z3.Concat(ANYSTAR, r)
    return left if end else z3.Concat(left, ANYSTAR)


def fullmatch_lang(pattern, flags: int = 0):
    return to_z3(pattern, flags)


def alphabet_star(chars: str):
    return z3.Star(_union(z3.Re(c) for c in chars))


def solve(constraints, timeout_ms: int = 60000, seed: int = 0):
    """Returns ('unsat'|'sat'|'unknown', model string or None, seconds)."""
    import time

    s = z3.Solver()
    s.set("timeout", timeout_ms)
    s.set("random_seed", seed)
    x = z3.String("x")
    for c in constraints(x):
        s.add(c)
    t = time.time()
    r = str(s.check())
    dt = time.time() - t
    if r == "sat":
        return r, s.model().eval(x, model_completion=True).as_string(), dt
    return r, None, dt


def z3str_to_py(s: str) -> str:
    """z3's as_string() escapes non-printables as \\u{..}."""
    return re.sub(r"\\u\{([0-9a-fA-F]+)\}", lambda m: chr(int(m.group(1), 16)), s)


def validate(patterns: list[tuple[str, int]], samples: list[str], mode: str = "match") -> list[str]:
    """Translator self-check: for every pattern (without \\b) and sample, re's verdict must equal InRe's.
    Returns a list of disagreement descriptions (empty = ok)."""
    bad = []
    for pat, fl in patterns:
        try:
            lang = {"match": match_lang, "search": search_lang, "fullmatch": fullmatch_lang}[mode](pat, fl)
        except Unsupported:
            continue
        if r"\b" in pat:
            continue
        cre = re.compile(pat, fl)
        for s in samples:
            want = getattr(cre, mode)(s) is not None
            got = z3.is_true(z3.simplify(z3.InRe(z3.StringVal(s), lang)))
            if want != got:
                bad.append(f"{mode} {pat!r} on {s!r}: re={want} z3={got}")
    return bad


NOMARK = z3.Star(_neg(z3.Empty(_RS)))


def well_placed_marks():
    """Strings in which every \\b marker really stands at a word boundary: between a word character and a non-word
    character (or the start / end of the string), never between two word characters, two non-word characters, or next to
    another marker.  Constraining a query string to this language removes models in which a marker 'creates' a boundary."""
    W = _category(K.CATEGORY_WORD, False)
    N = _neg(W)  # non-word, never the marker itself
    M = z3.Re(MARK)
    bad_mid = z3.Union(z3.Concat(W, M, W), z3.Concat(N, M, N), z3.Concat(M, M))
    bad = z3.Union(
        z3.Concat(ANYSTAR, bad_mid, ANYSTAR),
        z3.Concat(M, N, ANYSTAR),  # a marker at the start must be followed by a word character
        z3.Concat(ANYSTAR, N, M),  # ... at the end preceded by one
        M,
    )
    return z3.Complement(bad)


def _in_word():
    """word characters plus '-' and ':' (characters that continue an HTML tag / attribute name)"""
    return z3.Union(_category(K.CATEGORY_WORD, False), z3.Re("-"), z3.Re(":"))
