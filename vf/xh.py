"""E1 driver: CrossHair conditions, one OS process each, reachability twins, concrete re-execution."""
from __future__ import annotations

import ast
import concurrent.futures as cf
import dataclasses
import importlib.util
import json
import os
import re
import subprocess
import sys
import time
from typing import Optional

from . import common as C

CONFIRMED, REFUTED, UNKNOWN, NOPRE, ERROR = "confirmed", "refuted", "unknown", "no-precondition", "error"


@dataclasses.dataclass
class Cond:
    file: str  # generated harness file (absolute)
    func: str
    line: int
    timeout: float
    twin_of: Optional[str] = None


@dataclasses.dataclass
class Res:
    cond: Cond
    verdict: str
    message: str = ""
    call: str = ""  # "f(args)" text of the counterexample
    iterations: int = 0
    smt_checks: int = 0
    smt_s: float = 0.0
    cpu_s: float = 0.0
    wall_s: float = 0.0
    raw: str = ""


def prepare(path: str, only: Optional[re.Pattern] = None, src: Optional[str] = None) -> tuple[str, dict[str, int]]:
    """Copy a harness module to .gen/, appending a reachability twin (`post: False`) per contract function.

    Returns (generated path, {function name: line inside its def})."""
    if src is None:
        with open(path) as f:
            src = f.read()
    tree = ast.parse(src)
    lines = src.splitlines()
    twins = []
    for node in tree.body:
        if not isinstance(node, ast.FunctionDef):
            continue
        doc = ast.get_docstring(node, clean=False)
        if not doc or "post:" not in doc:
            continue
        seg = "\n".join(lines[node.lineno - 1 : node.end_lineno])
        # rename + replace every post line by `post: False`
        seg = re.sub(r"^def\s+" + re.escape(node.name) + r"\b", "def " + node.name + "__reach", seg, count=1)
        seg = re.sub(r"^(\s*)post:.*$", r"\1post: False", seg, flags=re.M)
        twins.append(seg)
    out = src + "\n\n# ---- reachability twins (generated) ----\n" + "\n\n".join(twins) + "\n"
    os.makedirs(C.GEN, exist_ok=True)
    gen = os.path.join(C.GEN, os.path.basename(path))
    with open(gen, "w") as f:
        f.write(out)
    _mods.pop(gen, None)  # rewritten: a cached import would be stale
    t2 = ast.parse(out)
    where = {}
    for node in t2.body:
        if isinstance(node, ast.FunctionDef):
            doc = ast.get_docstring(node, clean=False)
            if doc and "post:" in doc and (only is None or only.search(node.name)):
                where[node.name] = node.body[0].lineno  # a line inside the def
    return gen, where


_mods: dict[str, object] = {}
_MSG = re.compile(r"^(?P<file>.*?):(?P<line>\d+): (?P<kind>error|info|warning): (?P<msg>.*)$")


def _run_one(c: Cond) -> Res:
    t0 = time.time()
    hard = c.timeout * 2.5 + 60
    env = dict(os.environ)
    env["PYTHONPATH"] = os.pathsep.join([C.VERIF, os.path.dirname(c.file), os.path.join(C.VERIF, "harness"), env.get("PYTHONPATH", "")])
    env["PYTHONHASHSEED"] = "0"
    cmd = [sys.executable, "-m", "vf.xh_worker", str(c.timeout), f"{c.file}:{c.line}"]
    try:
        p = subprocess.run(cmd, capture_output=True, text=True, timeout=hard, env=env, cwd=os.path.dirname(c.file))
        out, err = p.stdout, p.stderr
    except subprocess.TimeoutExpired as e:
        return Res(c, UNKNOWN, "hard wall-clock limit", wall_s=time.time() - t0, raw=str(e)[:500])
    r = Res(c, UNKNOWN, wall_s=time.time() - t0, raw=(out + "\n" + err)[-3000:])
    for ln in out.splitlines():
        if ln.startswith("XHSTATS "):
            try:
                s = json.loads(ln[8:])
                r.iterations, r.smt_checks, r.smt_s, r.cpu_s = s["iterations"], s["smt_checks"], s["smt_s"], s.get("cpu_s", 0.0)
            except Exception:
                pass
    msgs = []
    buf = None
    for ln in out.splitlines():
        m = _MSG.match(ln)
        if m:
            buf = [m.group("kind"), m.group("msg")]
            msgs.append(buf)
        elif buf is not None and not ln.startswith("XHSTATS "):
            buf[1] += "\n" + ln  # multi-line message
    errs = [m for k, m in msgs if k == "error"]
    infos = [m for k, m in msgs if k == "info"]
    if errs:
        msg = errs[0]
        mm = re.search(r"when calling (" + re.escape(c.func) + r"\(.*?\))(?: \(which (?:returns|raises) .*\))?\s*$", msg, flags=re.S)
        if mm:
            r.verdict, r.message, r.call = REFUTED, msg, mm.group(1)
        else:
            r.verdict, r.message = ERROR, msg
    elif any("Confirmed over all paths" in m for m in infos):
        r.verdict, r.message = CONFIRMED, "Confirmed over all paths."
    elif any("Unable to meet precondition" in m for m in infos):
        r.verdict, r.message = NOPRE, "Unable to meet precondition."
    elif any("Not confirmed" in m for m in infos):
        r.verdict, r.message = UNKNOWN, "Not confirmed."
    else:
        r.verdict, r.message = ERROR, (err or out)[-600:]
    return r


def _parse_msgs(out: str):
    msgs = []
    buf = None
    for ln in out.splitlines():
        m = _MSG.match(ln)
        if m:
            buf = [int(m.group("line")), m.group("kind"), m.group("msg")]
            msgs.append(buf)
        elif buf is not None and not ln.startswith("XHSTATS "):
            buf[2] += "\n" + ln
    return msgs


def _classify(c: Cond, msgs) -> tuple[str, str, str]:
    errs = [m for _, k, m in msgs if k == "error"]
    infos = [m for _, k, m in msgs if k == "info"]
    if errs:
        msg = errs[0]
        mm = re.search(r"when calling (" + re.escape(c.func) + r"\(.*?\))(?: \(which (?:returns|raises) .*\))?\s*$", msg, flags=re.S)
        if mm:
            return REFUTED, msg, mm.group(1)
        return ERROR, msg, ""
    if any("Confirmed over all paths" in m for m in infos):
        return CONFIRMED, "Confirmed over all paths.", ""
    if any("Unable to meet precondition" in m for m in infos):
        return NOPRE, "Unable to meet precondition.", ""
    if any("Not confirmed" in m for m in infos):
        return UNKNOWN, "Not confirmed.", ""
    return UNKNOWN, "no verdict line", ""


def _run_batch(conds: list[Cond]) -> list[Res]:
    """Several conditions of one file in one worker process (amortises interpreter/z3 start-up)."""
    if len(conds) == 1:
        return [_run_retry(conds[0])]
    t0 = time.time()
    tmo = max(c.timeout for c in conds)
    hard = sum(c.timeout for c in conds) * 2.0 + 60
    env = dict(os.environ)
    env["PYTHONPATH"] = os.pathsep.join([C.VERIF, os.path.dirname(conds[0].file), os.path.join(C.VERIF, "harness"), env.get("PYTHONPATH", "")])
    env["PYTHONHASHSEED"] = "0"
    cmd = [sys.executable, "-m", "vf.xh_worker", str(tmo)] + [f"{c.file}:{c.line}" for c in conds]
    try:
        p = subprocess.run(cmd, capture_output=True, text=True, timeout=hard, env=env, cwd=os.path.dirname(conds[0].file))
        out, err = p.stdout, p.stderr
    except subprocess.TimeoutExpired as e:
        return [Res(c, UNKNOWN, "hard wall-clock limit (batch)", wall_s=time.time() - t0) for c in conds]
    stats = {}
    for ln in out.splitlines():
        if ln.startswith("XHSTATS "):
            try:
                stats = json.loads(ln[8:])
            except Exception:
                pass
    msgs = _parse_msgs(out)
    # line ranges of the functions
    tree = ast.parse(open(conds[0].file).read())
    rng = {n.name: (n.lineno, n.end_lineno) for n in tree.body if isinstance(n, ast.FunctionDef)}
    res = []
    n = len(conds)
    for c in conds:
        lo, hi = rng.get(c.func, (0, -1))
        mine = [m for m in msgs if lo <= m[0] <= hi]
        v, msg, call = _classify(c, mine)
        if not mine:
            v, msg = UNKNOWN, "no message for this condition: " + (err or out)[-300:]
        res.append(Res(c, v, msg, call, iterations=stats.get("iterations", 0) // n, smt_checks=stats.get("smt_checks", 0) // n, smt_s=stats.get("smt_s", 0.0) / n, cpu_s=stats.get("cpu_s", 0.0) / n, wall_s=(time.time() - t0) / n, raw=""))
    # conditions without a definite verdict are re-run on their own (with retry)
    # only conditions that produced no verdict line at all are re-run on their own; "Not confirmed" in a batch
    # means the per-condition budget was used up
    return [_run_retry(r.cond) if (r.verdict in (ERROR, NOPRE) or r.message.startswith("no ")) else r for r in res]


def _run_retry(c: Cond) -> Res:
    r = _run_one(c)
    # CrossHair occasionally gives up early (non-exhausted tree well inside the budget); one retry
    if r.verdict in (UNKNOWN, NOPRE, ERROR) and r.cpu_s < 0.6 * c.timeout:
        r2 = _run_one(c)
        r2.iterations += r.iterations
        r2.smt_checks += r.smt_checks
        r2.smt_s += r.smt_s
        r2.cpu_s += r.cpu_s
        return r2
    return r


def run(conds: list[Cond], jobs: int = 0, batch: int = 1) -> list[Res]:
    jobs = jobs or C.JOBS
    if batch <= 1:
        with cf.ThreadPoolExecutor(max_workers=jobs) as ex:
            return list(ex.map(_run_retry, conds))
    groups = [conds[i : i + batch] for i in range(0, len(conds), batch)]
    with cf.ThreadPoolExecutor(max_workers=jobs) as ex:
        out = []
        for rs in ex.map(_run_batch, groups):
            out.extend(rs)
        return out


def load(genfile: str):
    if genfile not in _mods:
        name = "vfh_" + os.path.basename(genfile)[:-3]
        d = os.path.dirname(genfile)
        if d not in sys.path:
            sys.path.insert(0, d)
        h = os.path.join(C.VERIF, "harness")  # a harness may import another harness module (static preludes only)
        if h not in sys.path:
            sys.path.append(h)
        spec = importlib.util.spec_from_file_location(name, genfile)
        mod = importlib.util.module_from_spec(spec)
        sys.modules[name] = mod
        spec.loader.exec_module(mod)
        _mods[genfile] = mod
    return _mods[genfile]


def concrete(genfile: str, call: str):
    """Re-execute a counterexample call on the plain (untraced) interpreter.
    Returns (reproduces: bool, outcome text)."""
    mod = load(genfile)
    ns = dict(vars(mod))
    ns.setdefault("nan", float("nan"))
    ns.setdefault("inf", float("inf"))
    try:
        v = eval(call, ns)
    except Exception as e:  # noqa: BLE001 - the real code raised: that is the outcome
        return True, f"raises {type(e).__name__}: {e}"
    return (not v), f"returns {v!r}"


def api_replay(genfile: str, func: str, call: str):
    """If the harness module has replay_<func>, evaluate it on the same arguments.
    It returns (signature, reproduced, what) or a list of such tuples."""
    mod = load(genfile)
    rp = getattr(mod, "replay_" + func, None)
    if rp is None:
        return None
    ns = dict(vars(mod))
    ns.setdefault("nan", float("nan"))
    ns.setdefault("inf", float("inf"))
    ns[func] = rp
    return eval(call, ns)


def check_harness(rep: C.Report, path: str, groups: dict[str, dict], timeout: float, twin_timeout: float = 0.0, src: Optional[str] = None, explore_only: bool = False, batch: int = 1, twins: bool = True, select: Optional[str] = None) -> None:
    """Run every contract function of a harness module.

    groups: {regex on function name: dict(name=..., functions=[..], bounds=...)} -> one Ob per group.
    """
    gen, where = prepare(path, src=src)
    twin_timeout = twin_timeout or max(30.0, timeout / 2)
    if select:
        where = {k: v for k, v in where.items() if re.search(select, k)}
    only = os.environ.get("VERIF_ONLY")
    if only:
        where = {k: v for k, v in where.items() if re.search(only, k)}
    conds = []
    for fn, line in where.items():
        if fn.endswith("__reach"):
            if twins:
                conds.append(Cond(gen, fn, line, twin_timeout, twin_of=fn[: -len("__reach")]))
        else:
            conds.append(Cond(gen, fn, line, timeout))
    # longest first is unknown; keep twins last so real conditions start early
    conds.sort(key=lambda c: c.twin_of is not None)
    results = run(conds, batch=batch)
    by = {r.cond.func: r for r in results}
    if os.environ.get("VERIF_DEBUG"):
        for r in results:
            print(f"  .. {r.cond.func}: {r.verdict} paths={r.iterations} smt={r.smt_checks} cpu={r.cpu_s:.0f}s wall={r.wall_s:.0f}s {r.call or r.message[:80]}", file=sys.stderr)
    obs: dict[str, C.Ob] = {}
    for pat, meta in groups.items():
        obs[pat] = rep.add(C.Ob(meta["name"], meta.get("engine", "E1 CrossHair"), meta.get("functions", []), meta.get("bounds", "")))
    for r in results:
        if r.cond.twin_of:
            continue
        ob = next((obs[p] for p in groups if re.search(p, r.cond.func)), None)
        if ob is None:
            continue
        twin = by.get(r.cond.func + "__reach")
        ob.conditions += 1
        ob.paths += r.iterations
        ob.queries += r.smt_checks
        ob.solver_s += r.smt_s
        ob.cpu_s += r.cpu_s
        tag = r.cond.func
        if twin is not None:
            ob.paths += twin.iterations
            ob.queries += twin.smt_checks
            ob.solver_s += twin.smt_s
            ob.cpu_s += twin.cpu_s
        if r.verdict == CONFIRMED:
            if twin is not None and twin.verdict != REFUTED:
                ob.detail += f"{tag}: VACUOUS (twin {twin.verdict}); "
                ob._bad = True
            else:
                ob.confirmed_conditions += 1
                if len(ob.samples) < 6:
                    ob.samples.append({"condition": tag, "verdict": "confirmed over all paths", "paths": r.iterations, "reach_witness": twin.call if twin else None})
        elif r.verdict == REFUTED:
            ok, outcome = concrete(gen, r.call)
            if not ok:
                ob.detail += f"{tag}: model {r.call} does not reproduce concretely ({outcome}) -> inconclusive; "
                ob._bad = True
                continue
            api = None
            try:
                api = api_replay(gen, r.cond.func, r.call)
            except Exception as e:  # noqa: BLE001
                ob.detail += f"{tag}: api replay failed {type(e).__name__}: {e}; "
            if api is None:
                entries = [(f"{r.call}", True, f"{tag} fails on the real function: {outcome}")]
            elif isinstance(api, tuple):
                entries = [api]
            else:
                entries = list(api)
            hit = False
            for sig, reproduced, what in entries:
                if reproduced:
                    hit = True
                    v = rep.violation(sig, what, {"harness": os.path.basename(gen), "call": r.call, "crosshair_message": r.message[:500]})
                    ob.samples.append({"condition": tag, "counterexample": r.call, "replayed_as": sig, "known": v.known is not None})
                    ob.__dict__.setdefault("_vs", []).append(v)
            if hit:
                ob._viol = True
                ob.confirmed_conditions += 1
            else:
                ob.detail += f"{tag}: counterexample {r.call} does not reproduce through the public API -> inconclusive; "
                ob._bad = True
        elif r.verdict == ERROR:
            ob.detail += f"{tag}: crosshair error: {r.message[:200]}; "
            ob._bad = True
        else:
            ob.detail += f"{tag}: {r.verdict}; "
            ob._bad = True
    for ob in obs.values():
        if getattr(ob, "_viol", False):
            sigs = ob.__dict__.get("_vs", [])
            ob.verdict = C.VIOLATED if any(v.known is None for v in sigs) else C.KNOWN
        elif ob.conditions == 0:
            ob.verdict = C.NOT_ENCODABLE
        elif getattr(ob, "_bad", False):
            ob.verdict = C.EXPLORED if explore_only else C.INCONCLUSIVE
        else:
            ob.verdict = C.DISCHARGED
