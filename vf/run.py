"""./check <ID> [--tier quick|thorough] [--replay path]"""
import argparse
import importlib
import json
import os
import sys
import traceback

from . import common as C


def main() -> int:
    ap = argparse.ArgumentParser()
    ap.add_argument("pid")
    ap.add_argument("--tier", choices=["quick", "thorough"])
    ap.add_argument("--replay")
    ap.add_argument("--only", help="regex on obligation/condition names (development aid; evidence is still written)")
    a = ap.parse_args()
    if a.tier:
        os.environ["VERIF_TIER"] = a.tier
    if a.only:
        os.environ["VERIF_ONLY"] = a.only
    try:
        mod = importlib.import_module("props." + a.pid)
    except ModuleNotFoundError:
        print(f"no check for {a.pid}", file=sys.stderr)
        return 2
    if a.replay:
        with open(a.replay) as f:
            r = json.load(f)
        return mod.replay(r)
    rep = C.Report(a.pid)
    try:
        mod.run(rep)
    except Exception:  # noqa: BLE001
        traceback.print_exc()
        rep.harness_errors.append(traceback.format_exc()[-800:])
    return C.finish(rep)


if __name__ == "__main__":
    sys.exit(main())
