"""Regex-pass pipelines (functions that rewrite a text by a sequence of re.sub / re.finditer passes).

Two kinds of facts are decided about such a function, from its current AST and its pattern literals:

* pass order: for a required precedence "A before B", z3 first shows that the order matters (some string matched by
  A contains a match of B: sat with a witness), then the AST must list A's statement before B's; otherwise the witness
  document is replayed through the public API.
* early exits: for every `return` that precedes a pass, the path condition (conjunction of the enclosing `if` tests,
  translated to z3 string constraints: `"lit" in text`, `not in`, startswith/endswith, and/or/not) together with
  "text contains a match of a later pattern" must be unsat; a model is a text on which the function returns early although a
  pass applies -> replay.
"""
from __future__ import annotations

import ast
import re
from typing import Optional

import z3

from . import resym as R


class Pass:
    def __init__(self, line: int, pattern: str, flags: int, call: str):
        self.line, self.pattern, self.flags, self.call = line, pattern, flags, call

    def matches(self, s: str) -> bool:
        return re.search(self.pattern, s, self.flags) is not None


def _const_str(n) -> Optional[str]:
    try:
        v = ast.literal_eval(n)
        return v if isinstance(v, str) else None
    except Exception:  # noqa: BLE001
        return None


def _flags_of(call: ast.Call, skip_pos: int) -> int:
    flags = 0
    cands = [kw.value for kw in call.keywords if kw.arg == "flags"]
    if len(call.args) > skip_pos and call.func.attr == "compile":  # re.compile(pattern, flags)
        cands.append(call.args[skip_pos])
    for v in cands:
        try:
            flags |= int(eval(compile(ast.Expression(v), "<flags>", "eval"), {"re": re}))
        except Exception:  # noqa: BLE001
            pass
    return flags


def compiled_constants(module_tree: Optional[ast.AST]) -> dict:
    """module-level `NAME = re.compile(<literal>[, flags])` assignments: name -> (pattern, flags)"""
    out = {}
    if module_tree is None:
        return out
    for st in getattr(module_tree, "body", []):
        if isinstance(st, ast.Assign) and len(st.targets) == 1 and isinstance(st.targets[0], ast.Name):
            v = st.value
        elif isinstance(st, ast.AnnAssign) and isinstance(st.target, ast.Name) and st.value is not None:
            v = st.value
            st = ast.Assign(targets=[st.target], value=v)
        else:
            continue
        if isinstance(v, ast.Call) and isinstance(v.func, ast.Attribute) and isinstance(v.func.value, ast.Name) and v.func.value.id == "re" and v.func.attr == "compile" and v.args:
            pat = _const_str(v.args[0])
            if pat is not None:
                out[st.targets[0].id] = (pat, _flags_of(v, 1))
    return out


def passes(fn: ast.FunctionDef, module_tree: Optional[ast.AST] = None) -> list[Pass]:
    """re.sub / finditer / search / match / split calls of `fn` with a literal pattern, in source order; patterns precompiled
    into module-level constants (`X = re.compile(...)`; `X.sub(...)`) are resolved when the module tree is given."""
    consts = compiled_constants(module_tree)
    out = []
    for n in ast.walk(fn):
        if not (isinstance(n, ast.Call) and isinstance(n.func, ast.Attribute) and isinstance(n.func.value, ast.Name) and n.func.attr in ("sub", "finditer", "search", "match", "split")):
            continue
        if n.func.value.id == "re" and n.args:
            p = _const_str(n.args[0])
            if p is None and isinstance(n.args[0], ast.Name) and n.args[0].id in consts:
                p, fl = consts[n.args[0].id]
                out.append(Pass(n.lineno, p, fl | _flags_of(n, 99), n.func.attr))
                continue
            if p is None:
                continue
            out.append(Pass(n.lineno, p, _flags_of(n, 99), n.func.attr))
        elif n.func.value.id in consts:
            p, fl = consts[n.func.value.id]
            out.append(Pass(n.lineno, p, fl, n.func.attr))
    return sorted(out, key=lambda x: x.line)


def find_pass(ps: list[Pass], must_match: list[str], must_not: list[str] = ()) -> Optional[Pass]:
    for p in ps:
        try:
            if all(p.matches(s) for s in must_match) and not any(p.matches(s) for s in must_not):
                return p
        except re.error:
            continue
    return None


def order_matters(a: Pass, b: Pass, timeout_ms: int = 20000):
    """z3: is there a string fully matched by A's pattern that contains a match of B's pattern?  ('sat', witness) / ('unsat', None) / ('unknown', None)"""
    try:
        la = R.fullmatch_lang(a.pattern, a.flags)
        lb = R.search_lang(b.pattern, b.flags)
    except R.Unsupported:
        return "unknown", None
    s = z3.Solver()
    s.set("timeout", timeout_ms)
    x = z3.String("x")
    s.add(z3.InRe(x, la), z3.InRe(x, lb))
    r = str(s.check())
    return (r, R.z3str_to_py(s.model().eval(x, model_completion=True).as_string())) if r == "sat" else (r, None)


# ------------------------------------------------------------------ early exits
def _guard_to_z3(test: ast.AST, var: str, x):
    """translate a Python condition over the text variable into z3, or None"""
    if isinstance(test, ast.BoolOp):
        parts = [_guard_to_z3(v, var, x) for v in test.values]
        if any(p is None for p in parts):
            return None
        return z3.And(*parts) if isinstance(test.op, ast.And) else z3.Or(*parts)
    if isinstance(test, ast.UnaryOp) and isinstance(test.op, ast.Not):
        p = _guard_to_z3(test.operand, var, x)
        return None if p is None else z3.Not(p)
    if isinstance(test, ast.Compare) and len(test.ops) == 1 and isinstance(test.comparators[0], ast.Name) and test.comparators[0].id == var:
        lit = _const_str(test.left)
        # substring tests as regular-language membership: keeps the whole query inside the regex fragment
        if lit is not None and isinstance(test.ops[0], ast.In):
            return z3.InRe(x, z3.Concat(R.ANYSTAR, z3.Re(lit), R.ANYSTAR))
        if lit is not None and isinstance(test.ops[0], ast.NotIn):
            return z3.Not(z3.InRe(x, z3.Concat(R.ANYSTAR, z3.Re(lit), R.ANYSTAR)))
    if isinstance(test, ast.Compare) and len(test.ops) == 1 and isinstance(test.left, ast.Name) and test.left.id == var and isinstance(test.ops[0], (ast.Eq, ast.NotEq)):
        lit = _const_str(test.comparators[0])
        if lit is not None:
            e = x == z3.StringVal(lit)
            return e if isinstance(test.ops[0], ast.Eq) else z3.Not(e)
    if isinstance(test, ast.Call) and isinstance(test.func, ast.Attribute) and isinstance(test.func.value, ast.Name) and test.func.value.id == var and test.args:
        lit = _const_str(test.args[0])
        if lit is not None and test.func.attr == "startswith":
            return z3.PrefixOf(z3.StringVal(lit), x)
        if lit is not None and test.func.attr == "endswith":
            return z3.SuffixOf(z3.StringVal(lit), x)
    if isinstance(test, ast.Name) and test.id == var:
        return z3.Length(x) > 0
    return None


def early_exits(fn: ast.FunctionDef, var: str, ps: list[Pass]):
    """Returns a list of (line, status, witness): status 'ok' (unsat), 'skips' (sat: witness text returns early although a
    later pass matches), 'untranslatable'."""
    out = []
    if not ps:
        return out
    last_line = ps[-1].line

    def visit(stmts, conds):
        for s in stmts:
            if isinstance(s, ast.If):
                visit(s.body, conds + [(s.test, True)])
                visit(s.orelse, conds + [(s.test, False)])
            elif isinstance(s, ast.Return) and s.lineno < last_line:
                x = z3.String("x")
                terms = []
                ok = True
                for t, pol in conds:
                    g = _guard_to_z3(t, var, x)
                    if g is None:
                        ok = False
                        break
                    terms.append(g if pol else z3.Not(g))
                if not ok:
                    out.append((s.lineno, "untranslatable", None))
                    continue
                later = [p for p in ps if p.line > s.lineno]
                verdicts = []
                witness = None
                for p in later:  # one query per later pass (a disjunction of all languages is much harder for z3)
                    try:
                        lang = R.search_lang(p.pattern, p.flags)
                    except R.Unsupported:
                        verdicts.append("unknown")
                        continue
                    sol = z3.Solver()
                    sol.set("timeout", 30000)
                    sol.add(*terms)
                    sol.add(z3.InRe(x, lang))
                    r = str(sol.check())
                    verdicts.append(r)
                    if r == "sat":
                        witness = R.z3str_to_py(sol.model().eval(x, model_completion=True).as_string())
                        break
                if witness is not None:
                    out.append((s.lineno, "skips", witness))
                elif all(v == "unsat" for v in verdicts):
                    out.append((s.lineno, "ok", None))
                else:
                    out.append((s.lineno, "untranslatable", None))
            elif isinstance(s, (ast.For, ast.While, ast.With, ast.Try)):
                visit(getattr(s, "body", []), conds)

    visit(fn.body, [])
    return out
