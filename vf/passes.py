"""Regex-pass pipelines (functions that rewrite a text by a sequence of re.sub / re.finditer passes).

Two kinds of facts are decided about such a function, from its current AST and its pattern literals:

* pass order: for a required precedence "A before B", z3 first shows that the order matters (some string matched by
  A contains a match of B: sat with a witness), then the AST must list A's statement before B's; otherwise the witness
  document is replayed through the public API.
* early exits: for every `return` that precedes a pass, the path condition (conjunction of the enclosing `if` tests,
  translated to z3 string constraints: `"lit" in text`, `not in`, startswith/endswith, and/or/not) together with
  "text contains a match of a later pattern" must be unsat; a model is a text on which the function returns early although a
  pass applies -> replay.
"""
from __future__ import annotations

import ast
import re
from typing import Optional

import z3

from . import resym as R


class Pass:
    def __init__(self, line: int, pattern: str, flags: int, call: str):
        self.line, self.pattern, self.flags, self.call = line, pattern, flags, call

    def matches(self, s: str) -> bool:
        return re.search(self.pattern, s, self.flags) is not None


def _const_str(n) -> Optional[str]:
    try:
        v = ast.literal_eval(n)
        return v if isinstance(v, str) else None
    except Exception:  # noqa: BLE001
        return None


def passes(fn: ast.FunctionDef) -> list[Pass]:
    out = []
    for n in ast.walk(fn):
        if isinstance(n, ast.Call) and isinstance(n.func, ast.Attribute) and isinstance(n.func.value, ast.Name) and n.func.value.id == "re" and n.func.attr in ("sub", "finditer", "search", "match", "split") and n.args:
            p = _const_str(n.args[0])
            if p is None:
                continue
            flags = 0
            for kw in n.keywords:
                if kw.arg == "flags":
                    try:
                        flags = eval(compile(ast.Expression(kw.value), "<flags>", "eval"), {"re": re})
                    except Exception:  # noqa: BLE001
                        flags = 0
            out.append(Pass(n.lineno, p, flags, n.func.attr))
    return sorted(out, key=lambda x: x.line)


def find_pass(ps: list[Pass], must_match: list[str], must_not: list[str] = ()) -> Optional[Pass]:
    for p in ps:
        try:
            if all(p.matches(s) for s in must_match) and not any(p.matches(s) for s in must_not):
                return p
        except re.error:
            continue
    return None


def order_matters(a: Pass, b: Pass, timeout_ms: int = 20000):
    """z3: is there a string fully matched by A's pattern that contains a match of B's pattern?  ('sat', witness) / ('unsat', None) / ('unknown', None)"""
    try:
        la = R.fullmatch_lang(a.pattern, a.flags)
        lb = R.search_lang(b.pattern, b.flags)
    except R.Unsupported:
        return "unknown", None
    s = z3.Solver()
    s.set("timeout", timeout_ms)
    x = z3.String("x")
    s.add(z3.InRe(x, la), z3.InRe(x, lb))
    r = str(s.check())
    return (r, R.z3str_to_py(s.model().eval(x, model_completion=True).as_string())) if r == "sat" else (r, None)


# ------------------------------------------------------------------ early exits
def _guard_to_z3(test: ast.AST, var: str, x):
    """translate a Python condition over the text variable into z3, or None"""
    if isinstance(test, ast.BoolOp):
        parts = [_guard_to_z3(v, var, x) for v in test.values]
        if any(p is None for p in parts):
            return None
        return z3.And(*parts) if isinstance(test.op, ast.And) else z3.Or(*parts)
    if isinstance(test, ast.UnaryOp) and isinstance(test.op, ast.Not):
        p = _guard_to_z3(test.operand, var, x)
        return None if p is None else z3.Not(p)
    if isinstance(test, ast.Compare) and len(test.ops) == 1 and isinstance(test.comparators[0], ast.Name) and test.comparators[0].id == var:
        lit = _const_str(test.left)
        # substring tests as regular-language membership: keeps the whole query inside the regex fragment
        if lit is not None and isinstance(test.ops[0], ast.In):
            return z3.InRe(x, z3.Concat(R.ANYSTAR, z3.Re(lit), R.ANYSTAR))
        if lit is not None and isinstance(test.ops[0], ast.NotIn):
            return z3.Not(z3.InRe(x, z3.Concat(R.ANYSTAR, z3.Re(lit), R.ANYSTAR)))
    if isinstance(test, ast.Compare) and len(test.ops) == 1 and isinstance(test.left, ast.Name) and test.left.id == var and isinstance(test.ops[0], (ast.Eq, ast.NotEq)):
        lit = _const_str(test.comparators[0])
        if lit is not None:
            e = x == z3.StringVal(lit)
            return e if isinstance(test.ops[0], ast.Eq) else z3.Not(e)
    if isinstance(test, ast.Call) and isinstance(test.func, ast.Attribute) and isinstance(test.func.value, ast.Name) and test.func.value.id == var and test.args:
        lit = _const_str(test.args[0])
        if lit is not None and test.func.attr == "startswith":
            return z3.PrefixOf(z3.StringVal(lit), x)
        if lit is not None and test.func.attr == "endswith":
            return z3.SuffixOf(z3.StringVal(lit), x)
    if isinstance(test, ast.Name) and test.id == var:
        return z3.Length(x) > 0
    return None


def early_exits(fn: ast.FunctionDef, var: str, ps: list[Pass]):
    """Returns a list of (line, status, witness): status 'ok' (unsat), 'skips' (sat: witness text returns early although a
    later pass matches), 'untranslatable'."""
    out = []
    if not ps:
        return out
    last_line = ps[-1].line

    def visit(stmts, conds):
        for s in stmts:
            if isinstance(s, ast.If):
                visit(s.body, conds + [(s.test, True)])
                visit(s.orelse, conds + [(s.test, False)])
            elif isinstance(s, ast.Return) and s.lineno < last_line:
                x = z3.String("x")
                terms = []
                ok = True
                for t, pol in conds:
                    g = _guard_to_z3(t, var, x)
                    if g is None:
                        ok = False
                        break
                    terms.append(g if pol else z3.Not(g))
                if not ok:
                    out.append((s.lineno, "untranslatable", None))
                    continue
                later = [p for p in ps if p.line > s.lineno]
                verdicts = []
                witness = None
                for p in later:  # one query per later pass (a disjunction of all languages is much harder for z3)
                    try:
                        lang = R.search_lang(p.pattern, p.flags)
                    except R.Unsupported:
                        verdicts.append("unknown")
                        continue
                    sol = z3.Solver()
                    sol.set("timeout", 30000)
                    sol.add(*terms)
                    sol.add(z3.InRe(x, lang))
                    r = str(sol.check())
                    verdicts.append(r)
                    if r == "sat":
                        witness = R.z3str_to_py(sol.model().eval(x, model_completion=True).as_string())
                        break
                if witness is not None:
                    out.append((s.lineno, "skips", witness))
                elif all(v == "unsat" for v in verdicts):
                    out.append((s.lineno, "ok", None))
                else:
                    out.append((s.lineno, "untranslatable", None))
            elif isinstance(s, (ast.For, ast.While, ast.With, ast.Try)):
                visit(getattr(s, "body", []), conds)

    visit(fn.body, [])
    return out
