"""Runs `crosshair check` in-process on one target, counting symbolic paths and z3 queries.

usage: python -m vf.xh_worker <per_condition_timeout> <file.py:LINE>
Prints CrossHair's normal output, then one line `XHSTATS {json}`.
"""
import json
import sys
import time

import z3

stats = {"iterations": 0, "smt_checks": 0, "smt_s": 0.0}

_oc = z3.Solver.check


def _check(self, *a):
    t = time.perf_counter()
    try:
        return _oc(self, *a)
    finally:
        stats["smt_s"] += time.perf_counter() - t
        stats["smt_checks"] += 1


z3.Solver.check = _check

import crosshair.core as core  # noqa: E402

_od = core.debug


def _debug(*a):
    if a and a[0] == "Iteration ":
        stats["iterations"] += 1
    return _od(*a)


core.debug = _debug

from crosshair.main import unwalled_main  # noqa: E402


def main():
    timeout = sys.argv[1]
    targets = [a for a in sys.argv[2:] if not a.startswith("--")]
    extra = [a for a in sys.argv[2:] if a.startswith("--")]
    t = time.process_time()
    code = 2
    try:
        code = unwalled_main(["check", "--report_all", "--per_condition_timeout", timeout, *extra, *targets])
        code = code if isinstance(code, int) else 0
    except SystemExit as e:
        code = e.code if isinstance(e.code, int) else 2
    finally:
        stats["cpu_s"] = time.process_time() - t
        sys.stdout.flush()
        print("XHSTATS " + json.dumps(stats))
        sys.stdout.flush()
    sys.exit(code)


if __name__ == "__main__":
    main()
