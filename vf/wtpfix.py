"""Fixtures on the real library: contexts for harnesses and replays (plain interpreter)."""
from wikitextprocessor import Wtp

USTRING_STUB = """local u = {}
for k, v in pairs(string) do u[k] = v end
u.maxPatternLength = 10000
u.maxStringLength = 100000
u.toNFC = function(s) return s end
u.toNFD = function(s) return s end
u.toNFKC = function(s) return s end
u.toNFKD = function(s) return s end
u.codepoint = string.byte
u.char = string.char
u.isutf8 = function(s) return true end
u.gcodepoint = function(s) return nil end
return u"""


def new_ctx(templates=None, modules=None, lua=False, pages=None, **kw) -> Wtp:
    """A fresh in-temp-file context.  `lua=True` adds a stub for the Scribunto ustring module, which is a
    git submodule that is absent in this offline tree; without it the sandbox cannot boot."""
    kw.setdefault("quiet", True)
    kw.setdefault("quiet_output", True)
    ctx = Wtp(**kw)
    for name, body in (templates or {}).items():
        ctx.add_page("Template:" + name, 10, body)
    if lua or modules:
        ctx.add_page("Module:ustring:ustring", 828, USTRING_STUB, model="Scribunto")
    for name, body in (modules or {}).items():
        ctx.add_page("Module:" + name, 828, body, model="Scribunto")
    for title, ns, body in pages or []:
        ctx.add_page(title, ns, body)
    ctx.db_conn.commit()
    return ctx


def close(ctx) -> None:
    try:
        ctx.close_db_conn()
    except Exception:  # noqa: BLE001
        pass
